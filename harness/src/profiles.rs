//! C18 — behaviour independent of integer-overflow checking.
//!
//! The harness is built twice (cargo profiles `release`: overflow checks off, `chk`: overflow
//! checks + debug assertions on, otherwise identical) and the sub-commands of this module are run
//! by checks/c18.py with the same arguments under both builds:
//!
//!   prof-run     one complete case: create (the CLI's call sequence, optional schedule
//!                perturbation) -> extraction through the reader API (samples, lengths, ranges,
//!                segment descriptors) -> open of truncated copies of the archive; every
//!                observation is one NDJSON event for spec/Trace_Profiles.tla
//!   trace-lzest  real LZDiff::estimate / LZDiff::encode calls on mutation-derived
//!                (reference, target) pairs, one event per call, for spec/Trace_LzEstimate.tla
//!
//! Nothing is judged here: the code projects (bytes -> numbers, panic message -> class, LZ bytes ->
//! token fields) and drives the real API. Panics of EVERY thread are data: a process-wide hook
//! records (message, location); a worker that dies in the middle of a barrier round would block
//! the others for ever, so the create runs under a watchdog that gives up a fixed grace period
//! after the first panic.
use crate::archive::{create_like_cli, CreateOpts};
use crate::util::{self, Args};
use anyhow::Result;
use ragc_common::verif::{self, Event};
use ragc_core::{Decompressor, DecompressorConfig, LZDiff};
use rand::rngs::StdRng;
use rand::Rng;
use serde_json::{json, Value};
use std::io::Write;
use std::sync::atomic::{AtomicI64, AtomicU64, Ordering};
use std::sync::{Arc, Mutex};

pub fn dispatch(cmd: &str, a: &Args) -> Option<Result<()>> {
    match cmd {
        "prof-run" => Some(prof_run(a)),
        "trace-lzest" => Some(trace_lzest(a)),
        "prof-probe" => Some(probe_cmd()),
        _ => None,
    }
}

// ------------------------------------------------------------------------------------------
// panics of all threads
// ------------------------------------------------------------------------------------------
static PANICS: Mutex<Vec<(String, String)>> = Mutex::new(Vec::new());
static FIRST_PANIC_MS: AtomicI64 = AtomicI64::new(-1);

fn now_ms() -> i64 {
    use std::time::{SystemTime, UNIX_EPOCH};
    SystemTime::now().duration_since(UNIX_EPOCH).map(|d| d.as_millis() as i64).unwrap_or(0)
}

fn install_global_hook() {
    std::panic::set_hook(Box::new(|info| {
        let loc = info.location().map(|l| format!("{}:{}", l.file(), l.line())).unwrap_or_default();
        let p = info.payload();
        let msg = if let Some(s) = p.downcast_ref::<&str>() {
            s.to_string()
        } else if let Some(s) = p.downcast_ref::<String>() {
            s.clone()
        } else {
            "panic".to_string()
        };
        util::LAST_PANIC_LOC.with(|l| *l.borrow_mut() = loc.clone());
        if let Ok(mut v) = PANICS.lock() {
            v.push((msg, loc));
        }
        let _ = FIRST_PANIC_MS.compare_exchange(-1, now_ms(), Ordering::SeqCst, Ordering::SeqCst);
    }));
}

/// Class of a panic message: the messages rustc generates for checked integer arithmetic.
fn is_arith(msg: &str) -> bool {
    msg.starts_with("attempt to ") && (msg.ends_with("overflow") || msg.contains("with overflow"))
}

/// Strip the machine-specific prefix of a source location (…/ragc-core/src/x.rs:N).
fn short_loc(loc: &str) -> String {
    for key in ["ragc-core/", "ragc-common/", "ragc-cli/", "harness/"] {
        if let Some(p) = loc.find(key) {
            return loc[p..].to_string();
        }
    }
    loc.to_string()
}

fn take_panics() -> Vec<Value> {
    let mut v = PANICS.lock().unwrap();
    let out = v.iter().take(8).map(|(m, l)| json!({"msg": m, "loc": short_loc(l), "arith": is_arith(m)})).collect();
    v.clear();
    FIRST_PANIC_MS.store(-1, Ordering::SeqCst);
    out
}

/// Is this binary compiled with integer-overflow checks? Measured, not assumed.
fn probe_overflow_checks() -> bool {
    let x: u8 = std::hint::black_box(255u8);
    let r = std::panic::catch_unwind(move || std::hint::black_box(x + std::hint::black_box(1u8)));
    r.is_err()
}

fn probe_cmd() -> Result<()> {
    install_global_hook();
    let ovf = probe_overflow_checks();
    take_panics();
    println!("{}", json!({"ovf": ovf, "debug_assertions": cfg!(debug_assertions)}));
    Ok(())
}

fn cls_of(panics: &[Value], base: &str) -> String {
    if panics.iter().any(|p| p["arith"] == json!(true)) {
        "arith".to_string()
    } else if !panics.is_empty() {
        "panic".to_string()
    } else {
        base.to_string()
    }
}

// ------------------------------------------------------------------------------------------
// prof-run
// ------------------------------------------------------------------------------------------
fn num(e: &Event, k: &str) -> i64 {
    e.nums.iter().find(|(n, _)| *n == k).map(|x| x.1).unwrap_or(-1)
}

fn prof_run(a: &Args) -> Result<()> {
    install_global_hook();
    let ovf = probe_overflow_checks();
    take_panics();
    let prof = a.opt("prof").unwrap_or(if ovf { "chk" } else { "release" }).to_string();
    let o = CreateOpts::from_args(a)?;
    let perturb: u64 = a.num("perturb", 0u64);
    let stall_secs: u64 = a.num("stall-secs", 120u64);
    let grace_ms: i64 = a.num("grace-ms", 2500i64);
    let mut evs: Vec<Value> = vec![];

    // ---- create -------------------------------------------------------------------------
    let prios: Arc<Mutex<(i64, i64, Vec<i64>, u64)>> = Arc::new(Mutex::new((i64::MAX, i64::MIN, vec![], 0)));
    let last_progress = Arc::new(AtomicU64::new(0));
    let t0 = std::time::Instant::now();
    {
        let pr = prios.clone();
        let lp = last_progress.clone();
        verif::install(Some(Arc::new(move |e: Event| {
            lp.store(t0.elapsed().as_millis() as u64, Ordering::Relaxed);
            if e.kind == "p_contig" || e.kind == "p_token" {
                let p = num(&e, "prio");
                let mut g = pr.lock().unwrap();
                g.0 = g.0.min(p);
                g.1 = g.1.max(p);
                if e.kind == "p_token" {
                    if g.2.last() != Some(&p) {
                        g.2.push(p);
                    }
                } else {
                    g.3 += 1;
                }
            }
        })));
    }
    if perturb != 0 {
        let ctr = Arc::new(AtomicU64::new(0));
        verif::install_scheduler(Some(Arc::new(move |site: &'static str| {
            let n = ctr.fetch_add(1, Ordering::Relaxed);
            let mut r = util::rng(perturb ^ (verif::thread_id() << 32) ^ n ^ (site.len() as u64) << 20);
            match r.gen_range(0..10) {
                0..=4 => {}
                5..=7 => std::thread::yield_now(),
                _ => std::thread::sleep(std::time::Duration::from_micros(r.gen_range(50..800))),
            }
        })));
    }
    let (tx, rx) = std::sync::mpsc::channel();
    let o2 = o.clone();
    std::thread::spawn(move || {
        let r = std::panic::catch_unwind(std::panic::AssertUnwindSafe(|| create_like_cli(&o2)));
        let _ = tx.send(r.map_err(|_| ()));
    });
    let mut abandoned = false;
    let result = loop {
        match rx.recv_timeout(std::time::Duration::from_millis(50)) {
            Ok(r) => break Some(r),
            Err(std::sync::mpsc::RecvTimeoutError::Timeout) => {
                let fp = FIRST_PANIC_MS.load(Ordering::SeqCst);
                if fp >= 0 && now_ms() - fp > grace_ms {
                    abandoned = true; // a thread died; the others may wait for it for ever
                    break None;
                }
                let idle = t0.elapsed().as_millis() as u64 - last_progress.load(Ordering::Relaxed);
                if idle > stall_secs * 1000 {
                    abandoned = true;
                    break None;
                }
            }
            Err(_) => break None,
        }
    };
    verif::install(None);
    verif::install_scheduler(None);
    let panics = take_panics();
    let (base, msg) = match &result {
        Some(Ok(Ok(()))) => ("ok", String::new()),
        Some(Ok(Err(e))) => ("err", format!("{:#}", e)),
        Some(Err(())) => ("panic", String::new()),
        None => ("stalled", String::new()),
    };
    let cls = cls_of(&panics, base);
    let sha = if cls == "ok" { std::fs::read(&o.out).map(|b| util::sha256_hex(&b)).unwrap_or_default() } else { String::new() };
    {
        let g = prios.lock().unwrap();
        let none = g.3 == 0 && g.2.is_empty();
        evs.push(json!({"ev": "create", "prof": prof, "ovf": ovf, "cls": cls, "msg": msg, "sha": sha, "panics": panics,
            "prio_min": if none { i32::MAX as i64 } else { g.0 }, "prio_max": if none { i32::MAX as i64 } else { g.1 },
            "tok_prios": g.2.iter().take(64).collect::<Vec<_>>(), "n_contigs": g.3, "mode": if o.files.len() == 1 { "single" } else { "multi" },
            "threads": o.threads, "abandoned": abandoned}));
    }

    // ---- extraction through the reader API ------------------------------------------------
    if cls == "ok" {
        evs.extend(extract_events(&prof, &o.out, o.k, a.num("seed", 1u64)));
        if let Some(t) = a.opt("trunc") {
            evs.push(open_events(&prof, &o.out, t.parse().unwrap_or(0), a.num("seed", 1u64))?);
        }
    }
    let mut f = std::io::BufWriter::new(std::fs::File::create(a.get("trace")?)?);
    for e in &evs {
        writeln!(f, "{}", e)?;
    }
    f.flush()?;
    println!("{}", json!({"prof": prof, "ovf": ovf, "cls": cls, "sha256": sha, "events": evs.len(),
        "arith": evs.iter().map(|e| e["panics"].as_array().map(|p| p.iter().filter(|x| x["arith"] == json!(true)).count()).unwrap_or(0)).sum::<usize>()}));
    std::io::stdout().flush()?;
    if abandoned {
        std::process::exit(0); // blocked worker threads cannot be joined
    }
    Ok(())
}

fn hash_update(h: &mut sha2::Sha256, b: &[u8]) {
    use sha2::Digest;
    h.update((b.len() as u64).to_le_bytes());
    h.update(b);
}

/// Everything the reader API returns for the archive, reduced to digests and the numbers the
/// specification reasons about (segment raw lengths, k, contig lengths).
fn extract_events(prof: &str, agc: &str, k: usize, seed: u64) -> Vec<Value> {
    use sha2::Digest;
    let mut out = vec![];
    let opened = std::panic::catch_unwind(|| Decompressor::open(agc, DecompressorConfig { verbosity: 0 }));
    let mut d = match opened {
        Ok(Ok(d)) => d,
        Ok(Err(e)) => {
            out.push(json!({"ev": "extract", "prof": prof, "cls": "err", "msg": format!("{:#}", e), "digest": "", "panics": take_panics(), "n_samples": 0, "n_contigs": 0}));
            return out;
        }
        Err(_) => {
            let p = take_panics();
            out.push(json!({"ev": "extract", "prof": prof, "cls": cls_of(&p, "panic"), "msg": "", "digest": "", "panics": p, "n_samples": 0, "n_contigs": 0}));
            return out;
        }
    };
    let samples = d.list_samples();
    let mut h = sha2::Sha256::new();
    let mut n_contigs = 0usize;
    let mut cls = "ok".to_string();
    let mut msg = String::new();
    let mut all: Vec<(String, String, usize)> = vec![];
    for s in &samples {
        hash_update(&mut h, s.as_bytes());
        let r = std::panic::catch_unwind(std::panic::AssertUnwindSafe(|| d.get_sample(s)));
        match r {
            Ok(Ok(cs)) => {
                for (n, q) in &cs {
                    hash_update(&mut h, n.as_bytes());
                    hash_update(&mut h, q);
                    all.push((s.clone(), n.clone(), q.len()));
                    n_contigs += 1;
                }
            }
            Ok(Err(e)) => {
                cls = "err".into();
                msg = format!("{:#}", e);
                hash_update(&mut h, b"<err>");
            }
            Err(_) => {
                cls = "panic".into();
                hash_update(&mut h, b"<panic>");
            }
        }
    }
    let p = take_panics();
    let cls = cls_of(&p, &cls);
    let digest: String = h.finalize().iter().map(|x| format!("{:02x}", x)).collect();
    out.push(json!({"ev": "extract", "prof": prof, "cls": cls, "msg": msg, "digest": digest, "panics": p, "n_samples": samples.len(), "n_contigs": n_contigs}));

    // lengths, segment descriptors and ranges on a fresh handle (decompressor.rs 242-400)
    let mut rows: Vec<Value> = vec![];
    let mut h2 = sha2::Sha256::new();
    let mut cls2 = "ok".to_string();
    if let Ok(mut d2) = Decompressor::open(agc, DecompressorConfig { verbosity: 0 }) {
        let mut r = util::rng(seed ^ 0xC18);
        for (s, c, real_len) in &all {
            let res = std::panic::catch_unwind(std::panic::AssertUnwindSafe(|| {
                let l = d2.get_contig_length(s, c);
                let segs = d2.get_contig_segments_desc(s, c);
                (l, segs)
            }));
            match res {
                Ok((Ok(l), Ok(segs))) => {
                    rows.push(json!([l.min(1 << 30), real_len, segs.iter().map(|x| x.raw_length.min(1 << 30)).collect::<Vec<_>>()]));
                }
                Ok(_) => {
                    cls2 = "err".into();
                }
                Err(_) => {
                    cls2 = "panic".into();
                }
            }
            // two seeded ranges per contig
            for _ in 0..2 {
                let (x, y) = (r.gen_range(0..real_len + 2), r.gen_range(0..real_len + 2));
                let (st, en) = (x.min(y), x.max(y));
                let rr = std::panic::catch_unwind(std::panic::AssertUnwindSafe(|| d2.get_contig_range(s, c, st, en)));
                match rr {
                    Ok(Ok(v)) => hash_update(&mut h2, &v),
                    Ok(Err(_)) => hash_update(&mut h2, b"<err>"),
                    Err(_) => {
                        cls2 = "panic".into();
                        hash_update(&mut h2, b"<panic>")
                    }
                }
            }
        }
    } else {
        cls2 = "err".into();
    }
    let p = take_panics();
    let cls2 = cls_of(&p, &cls2);
    let digest2: String = h2.finalize().iter().map(|x| format!("{:02x}", x)).collect();
    out.push(json!({"ev": "lengths", "prof": prof, "cls": cls2, "k": k, "rows": rows, "digest": digest2, "panics": p}));
    out
}

/// Open truncated copies: every prefix length when the archive is at most `max_all` bytes, else
/// a seeded sample that always contains the first and last 300 lengths.
/// Row = [n, footer field of the prefix (last 8 bytes, little endian, capped), class(Archive::open), class(Decompressor::open)]
/// classes: 0 err, 1 handle, 2 arithmetic panic, 3 other panic.
fn open_events(prof: &str, agc: &str, max_all: usize, seed: u64) -> Result<Value> {
    let bytes = std::fs::read(agc)?;
    let len = bytes.len();
    let mut offs: Vec<usize> = if len <= max_all {
        (0..len).collect()
    } else {
        let mut r = util::rng(seed ^ 0x7C18);
        let mut v: Vec<usize> = (0..300.min(len)).chain(len.saturating_sub(300)..len).collect();
        for _ in 0..max_all.saturating_sub(600) {
            v.push(r.gen_range(0..len));
        }
        // every crash state whose trailing 8 bytes read as a plausible directory length (<= what precedes them): these get past
        // the reader's first range check, so part bytes are parsed as a directory
        for n in 8..len {
            if u64::from_le_bytes(bytes[n - 8..n].try_into().unwrap()) <= (n - 8) as u64 {
                v.push(n);
            }
        }
        v
    };
    offs.sort();
    offs.dedup();
    let tmp = format!("{}.{}.trunc", agc, prof);
    let mut rows: Vec<Value> = Vec::with_capacity(offs.len());
    let mut first: Vec<Value> = vec![];
    let code = |r: std::thread::Result<bool>, first: &mut Vec<Value>, n: usize, api: &str| -> i64 {
        let p = take_panics();
        match r {
            Ok(true) => 1,
            Ok(false) => 0,
            Err(_) => {
                let arith = p.iter().any(|x| x["arith"] == json!(true));
                if first.len() < 6 {
                    for mut x in p {
                        x["n"] = json!(n);
                        x["api"] = json!(api);
                        first.push(x);
                    }
                }
                if arith {
                    2
                } else {
                    3
                }
            }
        }
    };
    for &n in &offs {
        std::fs::write(&tmp, &bytes[..n])?;
        let foot: u64 = if n >= 8 { u64::from_le_bytes(bytes[n - 8..n].try_into().unwrap()) } else { 0 };
        let ra = std::panic::catch_unwind(|| {
            let mut ar = ragc_common::archive::Archive::new_reader();
            ar.open(&tmp).is_ok()
        });
        let ca = code(ra, &mut first, n, "Archive::open");
        let rd = std::panic::catch_unwind(|| Decompressor::open(&tmp, DecompressorConfig { verbosity: 0 }).is_ok());
        let cd = code(rd, &mut first, n, "Decompressor::open");
        rows.push(json!([n, foot.min(1 << 30), ca, cd]));
    }
    let _ = std::fs::remove_file(&tmp);
    Ok(json!({"ev": "opens", "prof": prof, "len": len, "rows": rows, "panics": first, "exhaustive": len <= max_all}))
}

// ------------------------------------------------------------------------------------------
// trace-lzest
// ------------------------------------------------------------------------------------------
fn rand_seq(r: &mut StdRng, n: usize) -> Vec<u8> {
    (0..n).map(|_| r.gen_range(0..4u8)).collect()
}

fn mutate(r: &mut StdRng, s: &[u8], snp: f64, indel: f64, nrun: f64, iupac: f64) -> Vec<u8> {
    let mut out = Vec::with_capacity(s.len() + 16);
    let mut i = 0;
    while i < s.len() {
        let x: f64 = r.gen();
        if x < snp {
            out.push((s[i] + r.gen_range(1..4u8)) % 4);
            i += 1;
        } else if x < snp + indel {
            if r.gen_bool(0.5) {
                for _ in 0..r.gen_range(1..5) {
                    out.push(r.gen_range(0..4u8));
                }
            } else {
                i += r.gen_range(1..5usize).min(s.len() - i);
            }
        } else if x < snp + indel + nrun {
            let l = [1usize, 2, 3, 4, 5, 9, 14][r.gen_range(0..7)];
            for _ in 0..l {
                out.push(4);
            }
            i += l.min(s.len() - i);
        } else if x < snp + indel + nrun + iupac {
            out.push(r.gen_range(5..16u8));
            i += 1;
        } else {
            out.push(s[i]);
            i += 1;
        }
    }
    out
}

/// (reference, target) pairs derived by mutation, shaped like the segments the compressor
/// estimates against candidate references (same start or same end, diverged in between).
fn gen_pair(r: &mut StdRng, idx: usize, len: usize, key_len: usize) -> (Vec<u8>, Vec<u8>, &'static str) {
    let l = (len as f64 * r.gen_range(0.4..1.3)) as usize + 8;
    let mut reference = rand_seq(r, l);
    if idx % 7 == 3 {
        reference = mutate(r, &reference, 0.0, 0.0, 0.01, 0.01); // N-runs / IUPAC inside the reference
    }
    if idx % 5 == 2 && l > 60 {
        // tandem repeat inside the reference: equally long candidate matches
        let blk: Vec<u8> = reference[10..40].to_vec();
        let at = l / 2;
        let tail = reference.split_off(at);
        reference.extend_from_slice(&blk);
        reference.extend_from_slice(&tail);
    }
    let rate = [0.0, 0.004, 0.015, 0.04, 0.10, 0.25][r.gen_range(0..6)];
    let kind = idx % 12;
    let (target, name): (Vec<u8>, &'static str) = match kind {
        0 => (reference.clone(), "equal"),
        1 => (mutate(r, &reference, 0.02, 0.0, 0.0, 0.0), "snp_only"),
        2 => {
            // mismatch shortly before a long identical tail: back-extended match running to the end
            let mut t = reference.clone();
            let p = t.len().saturating_sub(r.gen_range(18..40)).max(1);
            t[p - 1] = (t[p - 1] + 1) % 4;
            (t, "snp_then_tail")
        }
        3 => {
            let mut t = mutate(r, &reference, rate, rate / 4.0, 0.0, 0.0);
            t.truncate(t.len().saturating_sub(r.gen_range(0..30)));
            (t, "cut_tail")
        }
        4 => {
            let mut t = mutate(r, &reference, rate, rate / 4.0, 0.0, 0.0);
            let n = r.gen_range(1..40);
            t.extend(rand_seq(r, n));
            (t, "extra_tail")
        }
        5 => (mutate(r, &reference, rate, rate / 3.0, 0.004, 0.0), "nruns"),
        6 => (mutate(r, &reference, rate, 0.0, 0.0, 0.01), "iupac"),
        7 => {
            let cut = r.gen_range(0..reference.len() / 2);
            (mutate(r, &reference[cut..], rate, rate / 4.0, 0.0, 0.0), "cut_head")
        }
        8 => {
            // targets around and below key_len (the loop guard `i + key_len < text_size`), and the empty target
            let n = [0, 1, key_len.saturating_sub(1), key_len, key_len + 1, r.gen_range(0..24)][(idx / 12) % 6];
            (rand_seq(r, n), "short_random")
        }
        9 => {
            let mut t = vec![4u8; r.gen_range(3..30)];
            t.extend(mutate(r, &reference, rate, 0.0, 0.0, 0.0));
            (t, "leading_nrun")
        }
        10 => {
            // the target ends inside the reference, after an indel
            let mut t = mutate(r, &reference, 0.01, 0.01, 0.0, 0.0);
            let keep = t.len() * 2 / 3;
            t.truncate(keep);
            (t, "prefix_of_ref")
        }
        _ => (mutate(r, &reference, rate, rate / 4.0, 0.001, 0.001), "mixed"),
    };
    (reference, target, name)
}

/// Projection of the LZ-diff V2 byte stream to token fields:
/// [0,0,0] literal or '!' ; [1, field, 0] N-run (field = len - 4) ; [2, delta, field | -1] match
/// (field = len - min_match, -1 when the length is omitted). Err on bytes outside the grammar.
fn lex_tokens(b: &[u8]) -> std::result::Result<Vec<[i64; 3]>, String> {
    fn int(b: &[u8], p: &mut usize) -> std::result::Result<i64, String> {
        let neg = *p < b.len() && b[*p] == b'-';
        if neg {
            *p += 1;
        }
        let st = *p;
        let mut v: i64 = 0;
        while *p < b.len() && b[*p].is_ascii_digit() {
            v = v * 10 + (b[*p] - b'0') as i64;
            *p += 1;
            if v > (1 << 40) {
                return Err("integer too long".into());
            }
        }
        if *p == st {
            return Err(format!("digit expected at {}", st));
        }
        Ok(if neg { -v } else { v })
    }
    let mut out = vec![];
    let mut p = 0usize;
    while p < b.len() {
        let c = b[p];
        if c == 30 {
            p += 1;
            let v = int(b, &mut p)?;
            if p >= b.len() || b[p] != 4 {
                return Err(format!("N-run terminator expected at {}", p));
            }
            p += 1;
            out.push([1, v, 0]);
        } else if c == b'-' || c.is_ascii_digit() {
            let d = int(b, &mut p)?;
            let mut f = -1i64;
            if p < b.len() && b[p] == b',' {
                p += 1;
                f = int(b, &mut p)?;
            }
            if p >= b.len() || b[p] != b'.' {
                return Err(format!("'.' expected at {}", p));
            }
            p += 1;
            out.push([2, d, f]);
        } else {
            out.push([0, 0, 0]);
            p += 1;
        }
    }
    Ok(out)
}

fn trace_lzest(a: &Args) -> Result<()> {
    install_global_hook();
    let ovf = probe_overflow_checks();
    take_panics();
    let prof = a.opt("prof").unwrap_or(if ovf { "chk" } else { "release" }).to_string();
    let seed: u64 = a.num("seed", 1u64);
    let pairs: usize = a.num("pairs", 24usize);
    let len: usize = a.num("len", 120usize);
    let mut out = std::io::BufWriter::new(std::fs::File::create(a.get("out")?)?);
    let mut r = util::rng(seed ^ 0x1E57);
    let mut n_calls = 0u64;
    let mut n_arith = 0u64;
    let mut h = {
        use sha2::Digest;
        sha2::Sha256::new()
    };
    for idx in 0..pairs {
        let mm: u32 = [15u32, 18, 20, 12, 15, 24][r.gen_range(0..6)];
        let (reference, target, name) = gen_pair(&mut r, idx, len, (mm - 3) as usize);
        writeln!(out, "{}", json!({"ev": "pair", "id": idx, "kind": name, "prof": prof, "ovf": ovf, "mm": mm, "hs": 4, "ref": reference, "tgt": target}))?;
        let mut lz = LZDiff::new(mm);
        lz.prepare(&reference);
        let ts = target.len() as u32;
        let mut bounds: Vec<u32> = vec![1_000_000, if ts >= 16 { ts - 16 } else { ts }, 4];
        bounds.dedup();
        for &b in &bounds {
            let res = std::panic::catch_unwind(std::panic::AssertUnwindSafe(|| lz.estimate(&target, b)));
            let p = take_panics();
            n_calls += 1;
            let (v, big, pm) = match res {
                Ok(v) => (v.min(1 << 30), v >= (1 << 30), String::new()),
                Err(_) => (0, false, p.first().map(|x| format!("{} @ {}", x["msg"].as_str().unwrap_or(""), x["loc"].as_str().unwrap_or(""))).unwrap_or("panic".into())),
            };
            n_arith += p.iter().filter(|x| x["arith"] == json!(true)).count() as u64;
            hash_update(&mut h, format!("e{}:{}:{}:{}", idx, b, v, pm.is_empty()).as_bytes());
            writeln!(out, "{}", json!({"ev": "estimate", "id": idx, "bound": b, "res": v, "big": big, "panic": pm, "panics": p}))?;
        }
        let res = std::panic::catch_unwind(std::panic::AssertUnwindSafe(|| lz.encode(&target)));
        let p = take_panics();
        n_calls += 1;
        n_arith += p.iter().filter(|x| x["arith"] == json!(true)).count() as u64;
        let (toks, pm, nbytes) = match res {
            Ok(bytes) => {
                hash_update(&mut h, &bytes);
                match lex_tokens(&bytes) {
                    Ok(t) => (t, String::new(), bytes.len()),
                    Err(e) => (vec![], format!("lexer: {}", e), bytes.len()),
                }
            }
            Err(_) => {
                hash_update(&mut h, b"<panic>");
                (vec![], p.first().map(|x| format!("{} @ {}", x["msg"].as_str().unwrap_or(""), x["loc"].as_str().unwrap_or(""))).unwrap_or("panic".into()), 0)
            }
        };
        writeln!(out, "{}", json!({"ev": "encode", "id": idx, "toks": toks, "bytes": nbytes, "panic": pm, "panics": p}))?;
    }
    out.flush()?;
    use sha2::Digest;
    let digest: String = h.finalize().iter().map(|x| format!("{:02x}", x)).collect();
    println!("{}", json!({"prof": prof, "ovf": ovf, "pairs": pairs, "calls": n_calls, "arith": n_arith, "digest": digest}));
    Ok(())
}
