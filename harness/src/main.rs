#![allow(dead_code)]
//! rvh — harness binding the TLA+ specification in /verif/spec to the real ragc crates.
//! Sub-commands are grouped per specification module (one Rust module each, each with a
//! `dispatch(cmd, args) -> Option<Result<()>>`); each reads/writes JSON (ndjson for traces) so
//! that every verdict above the projection level is made by TLC or by comparing the model's
//! projected post-state with the real one (REPLAY).
mod util;
mod kmer;
mod tuplepack;
mod lz;
mod container;
mod queue;
mod bpq;
mod segbuf;
mod bloom;
mod naming;
mod collection;
mod reader;
mod range;
mod segmentation;
mod splitters;
mod archive;
mod lex;
mod gen;
mod pipeline;
mod fasta;
mod present;
mod cli;
mod profiles;

use std::process::exit;

fn main() {
    let args: Vec<String> = std::env::args().collect();
    if args.len() < 2 {
        eprintln!("usage: rvh <subcommand> [args]");
        exit(2);
    }
    let a = util::Args::new(&args[2..]);
    let cmd = args[1].as_str();
    let table: Vec<fn(&str, &util::Args) -> Option<anyhow::Result<()>>> = vec![
        kmer::dispatch,
        tuplepack::dispatch,
        lz::dispatch,
        container::dispatch,
        queue::dispatch,
        bpq::dispatch,
        segbuf::dispatch,
        bloom::dispatch,
        naming::dispatch,
        collection::dispatch,
        reader::dispatch,
        range::dispatch,
        segmentation::dispatch,
        splitters::dispatch,
        archive::dispatch,
        lex::dispatch,
        gen::dispatch,
        pipeline::dispatch,
        fasta::dispatch,
        present::dispatch,
        cli::dispatch,
        profiles::dispatch,
    ];
    for d in table {
        if let Some(r) = d(cmd, &a) {
            if let Err(e) = r {
                eprintln!("rvh {}: error: {:#}", cmd, e);
                exit(2);
            }
            return;
        }
    }
    eprintln!("unknown subcommand {}", cmd);
    exit(2);
}
