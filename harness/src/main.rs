#![allow(dead_code)]
//! rvh — harness binding the TLA+ specification in /verif/spec to the real ragc crates.
//! Sub-commands are grouped per specification module; each reads/writes JSON (ndjson for
//! traces) so that every verdict above the projection level is made by TLC or by comparing
//! the model's projected post-state with the real one (REPLAY).
mod util;
mod kmer;

use std::process::exit;

fn main() {
    let args: Vec<String> = std::env::args().collect();
    if args.len() < 2 {
        eprintln!("usage: rvh <subcommand> [args]");
        exit(2);
    }
    let a = util::Args::new(&args[2..]);
    let r = match args[1].as_str() {
        "replay-kmer" => kmer::replay(&a),
        "trace-kmer" => kmer::trace(&a),
        other => {
            eprintln!("unknown subcommand {}", other);
            exit(2);
        }
    };
    if let Err(e) = r {
        eprintln!("rvh {}: error: {:#}", args[1], e);
        exit(2);
    }
}
