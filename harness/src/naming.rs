//! trace-naming: the real stream-name functions of ragc_common::stream_naming recorded for dense and boundary ids
//! (validated by TLC against the naming rule of FormatOps.tla, spec/Trace_Naming.tla).
use crate::util::Args;
use anyhow::Result;
use ragc_common::stream_naming::{stream_base, stream_delta_name, stream_ref_name};
use serde_json::json;
use std::io::Write;

pub fn dispatch(cmd: &str, a: &Args) -> Option<Result<()>> {
    match cmd {
        "trace-naming" => Some(trace(a)),
        "trace-preprocess" => Some(trace_preprocess(a)),
        _ => None,
    }
}

fn trace(a: &Args) -> Result<()> {
    let dense: u32 = a.num("dense", 4200u32);
    let mut ids: Vec<u32> = (0..dense).collect();
    for p in [12u32, 18, 24, 30] {
        for d in [-2i64, -1, 0, 1, 2, 63, 64, 65] {
            let v = (1i64 << p) + d;
            if v >= 0 && v < (1i64 << 31) {
                ids.push(v as u32);
            }
        }
    }
    ids.push((1u32 << 31) - 1);
    let mut r = crate::util::rng(a.num("seed", 1u64));
    use rand::Rng;
    for _ in 0..a.num("random", 500usize) {
        ids.push(r.gen_range(0..(1u32 << 31)));
    }
    let mut out = std::io::BufWriter::new(std::fs::File::create(a.get("out")?)?);
    for id in &ids {
        writeln!(out, "{}", json!({"id": id, "base": stream_base(3000, *id).as_bytes(), "ref": stream_ref_name(3000, *id).as_bytes(),
                                   "delta": stream_delta_name(3000, *id).as_bytes()}))?;
    }
    out.flush()?;
    println!("{}", json!({"ids": ids.len()}));
    Ok(())
}

/// trace-preprocess: ragc_core::preprocessing::preprocess_raw_contig on every single byte of the domain (letters, bytes < 64),
/// on all byte pairs over a small alphabet, and on random lines of every length 0..=40 (all unrolled paths: len % 4 and the main loop).
pub fn trace_preprocess(a: &Args) -> Result<()> {
    use rand::Rng;
    crate::util::install_panic_hook();
    let dom: Vec<u8> = (0u8..64).chain(65..=90).chain(97..=122).collect();
    let mut inputs: Vec<Vec<u8>> = vec![vec![]];
    for &c in &dom {
        inputs.push(vec![c]);
    }
    let small = [b'A', b'c', b'N', b'x', b'U', b'\r', b' ', b'-', b'9', b'y'];
    for &x in &small {
        for &y in &small {
            inputs.push(vec![x, y]);
            inputs.push(vec![x, y, x]);
        }
    }
    let mut r = crate::util::rng(a.num("seed", 1u64));
    for len in 0..=40usize {
        for _ in 0..a.num("per-len", 6usize) {
            inputs.push((0..len).map(|_| dom[r.gen_range(0..dom.len())]).collect());
        }
    }
    let mut out = std::io::BufWriter::new(std::fs::File::create(a.get("out")?)?);
    for inp in &inputs {
        let mut v = inp.clone();
        let res = crate::util::catch(std::panic::AssertUnwindSafe(|| {
            ragc_core::preprocessing::preprocess_raw_contig(&mut v);
            v
        }));
        match res {
            Ok(o) => writeln!(out, "{}", json!({"inp": inp, "out": o, "result": "ok"}))?,
            Err(p) => writeln!(out, "{}", json!({"inp": inp, "out": [], "result": "panic", "msg": p}))?,
        }
    }
    out.flush()?;
    println!("{}", json!({"inputs": inputs.len()}));
    Ok(())
}
