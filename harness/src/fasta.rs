//! Binding of spec/Fasta.tla to the real code (property C16: every successfully created archive is
//! fully extractable, for any FASTA text).
//!
//! The harness only *materialises* inputs (bytes given by TLC / a seeded generator), *drives* the real
//! code and *projects* what it observes:
//!   create           -> "ok" | error class (Err / non-zero exit / panic: all of them are "create failed");
//!   listing          -> the sample names (bytes);
//!   extraction       -> per listed sample: status ok / fail and the FASTA text cut into (name, sequence)
//!                       records (a line starting with '>' opens a record; nothing is trimmed or mapped).
//! Whether an outcome is allowed for the input bytes is decided by TLC (spec/Trace_Fasta.tla evaluates
//! the contract of spec/Fasta.tla on the raw bytes of the input files recorded in the events).
//!
//! Sub-commands
//!   fasta-setup   the fixed reference sample and the token table of MC_Fasta (sequence tokens are
//!                 pieces of the reference, so that a non-reference sample built from them is LZ-encoded)
//!   replay-fasta  REPLAY: every behaviour TLC printed for MC_Fasta is (1) fed prefix by prefix to the real
//!                 record reader (`GenomeIO`) and compared with the model's post-state, (2) created as the
//!                 only sample and as a non-reference sample next to the reference, through the library
//!                 call sequence (`archive::create_like_cli`) and through the real `ragc` binary
//!   trace-fasta   TRACE: seeded random byte-level FASTA texts on top of the gen-case collections
//!   fasta-case    (internal) one create + list + extract in a child process: a panic, an abort or a hang of
//!                 the code under test is data / a tool error, never a crash of the driver
use crate::archive::{create_like_cli, CreateOpts};
use crate::gen;
use crate::util::{self, Args};
use anyhow::{anyhow, bail, Context, Result};
use rand::rngs::StdRng;
use rand::Rng;
use ragc_core::{Decompressor, DecompressorConfig, GenomeIO};
use serde_json::{json, Value};
use std::io::Write;
use std::path::{Path, PathBuf};
use std::sync::atomic::{AtomicUsize, Ordering};
use std::sync::Mutex;

pub fn dispatch(cmd: &str, a: &Args) -> Option<Result<()>> {
    match cmd {
        "fasta-setup" => Some(cmd_setup(a)),
        "replay-fasta" => Some(cmd_replay(a)),
        "trace-fasta" => Some(cmd_trace(a)),
        "fasta-case" => Some(cmd_case(a)),
        _ => None,
    }
}

// ------------------------------------------------------------------------------------------------
// projections
// ------------------------------------------------------------------------------------------------
fn bj(b: &[u8]) -> Value {
    Value::Array(b.iter().map(|&x| json!(x)).collect())
}
fn jb(v: &Value) -> Vec<u8> {
    v.as_array().map(|a| a.iter().map(|x| x.as_u64().unwrap_or(0) as u8).collect()).unwrap_or_default()
}

/// FASTA text of an extraction -> records (name = the bytes after '>' up to the LF, sequence = the
/// bytes of the following lines without their LF).  Bytes before the first '>' line become a record
/// with the name "?" so that nothing the code printed is hidden.
fn cut_records(text: &[u8]) -> Vec<(Vec<u8>, Vec<u8>)> {
    let mut out: Vec<(Vec<u8>, Vec<u8>)> = vec![];
    for line in text.split(|&c| c == b'\n') {
        if line.first() == Some(&b'>') {
            out.push((line[1..].to_vec(), vec![]));
        } else if !line.is_empty() {
            if out.is_empty() {
                out.push((b"?".to_vec(), vec![]));
            }
            out.last_mut().unwrap().1.extend_from_slice(line);
        }
    }
    out
}

fn records_json(recs: &[(Vec<u8>, Vec<u8>)]) -> Value {
    Value::Array(recs.iter().map(|(n, s)| json!({"name": bj(n), "seq": bj(s)})).collect())
}

const IUPAC: &[u8; 16] = b"ACGTNRYSWKMBDHVU";
fn is_unknown_letter(c: u8) -> bool {
    c.is_ascii_alphabetic() && !IUPAC.contains(&c.to_ascii_uppercase())
}

/// Features of the input measured on the raw bytes (used for the non-triviality counts only).
fn features(files: &[Vec<u8>]) -> Value {
    let (mut unknown, mut lower, mut crlf, mut nofinal, mut leading_blank, mut empty_rec, mut junk, mut interior_blank, mut iupac) =
        (0usize, 0usize, 0usize, 0usize, 0usize, 0usize, 0usize, 0usize, 0usize);
    let mut records = 0usize;
    for f in files {
        if !f.is_empty() && *f.last().unwrap() != b'\n' {
            nofinal += 1;
        }
        let mut seen_header = false;
        let mut cur_letters: Option<usize> = None;
        let mut blank_pending = false;
        for line in f.split(|&c| c == b'\n') {
            let l: &[u8] = if line.last() == Some(&b'\r') { crlf += 1; &line[..line.len() - 1] } else { line };
            if l.first() == Some(&b'>') {
                if let Some(n) = cur_letters {
                    if n == 0 {
                        empty_rec += 1;
                    }
                }
                cur_letters = Some(0);
                seen_header = true;
                records += 1;
                blank_pending = false;
            } else {
                let letters = l.iter().filter(|c| c.is_ascii_alphabetic()).count();
                if letters == 0 {
                    if !seen_header && !f.is_empty() {
                        leading_blank += 1;
                    }
                    if cur_letters.map(|n| n > 0).unwrap_or(false) {
                        blank_pending = true;
                    }
                } else if blank_pending {
                    interior_blank += 1;
                    blank_pending = false;
                }
                junk += l.iter().filter(|c| !c.is_ascii_alphabetic()).count();
                unknown += l.iter().filter(|&&c| is_unknown_letter(c)).count();
                lower += l.iter().filter(|c| c.is_ascii_lowercase()).count();
                iupac += l.iter().filter(|&&c| c.is_ascii_alphabetic() && !is_unknown_letter(c) && !b"ACGTacgt".contains(&c)).count();
                if let Some(n) = cur_letters.as_mut() {
                    *n += letters;
                }
            }
        }
        if cur_letters == Some(0) {
            empty_rec += 1;
        }
    }
    json!({"unknown": unknown, "lower": lower, "crlf": crlf, "nofinal": nofinal, "leading_blank": leading_blank,
           "empty_record": empty_rec, "junk": junk, "interior_blank": interior_blank, "iupac": iupac, "records": records})
}

// ------------------------------------------------------------------------------------------------
// one case in a child process
// ------------------------------------------------------------------------------------------------
struct Run {
    code: Option<i32>,
    stdout: Vec<u8>,
    stderr: String,
}

fn run_bin(bin: &str, args: &[String], wd: &Path, tag: &str, limit_s: u64) -> Result<Run> {
    let so = wd.join(format!("{}.stdout", tag));
    let se = wd.join(format!("{}.stderr", tag));
    let mut child = std::process::Command::new(bin)
        .args(args)
        .current_dir(wd)
        .env("RUST_BACKTRACE", "0")
        .env("TMPDIR", wd)
        // allocator policy only (speed): every create makes ZSTD level-19 contexts of ~80 MB several times; without
        // these glibc maps and unmaps them each time and the fresh pages dominate the run time of a tiny create
        .env("MALLOC_MMAP_MAX_", "0")
        .env("MALLOC_TRIM_THRESHOLD_", "4000000000")
        .env("MALLOC_TOP_PAD_", "268435456")
        .stdin(std::process::Stdio::null())
        .stdout(std::fs::File::create(&so)?)
        .stderr(std::fs::File::create(&se)?)
        .spawn()
        .with_context(|| format!("cannot start {}", bin))?;
    let t0 = std::time::Instant::now();
    let status = loop {
        if let Some(st) = child.try_wait()? {
            break st;
        }
        if t0.elapsed().as_secs() > limit_s {
            let _ = child.kill();
            let _ = child.wait();
            bail!("timeout ({} s) running {} {:?}", limit_s, bin, args); // a tool error, never a verdict
        }
        std::thread::sleep(std::time::Duration::from_millis(if t0.elapsed().as_millis() < 300 { 2 } else { 20 }));
    };
    let stdout = std::fs::read(&so)?;
    let stderr = String::from_utf8_lossy(&std::fs::read(&se)?).to_string();
    let _ = std::fs::remove_file(&so);
    let _ = std::fs::remove_file(&se);
    Ok(Run { code: status.code(), stdout, stderr: tail(&stderr, 400) })
}

fn tail(s: &str, n: usize) -> String {
    let v: Vec<char> = s.chars().collect();
    v[v.len().saturating_sub(n)..].iter().collect()
}

fn class_of_exit(r: &Run) -> &'static str {
    match r.code {
        Some(0) => "ok",
        Some(101) => "panic",
        Some(_) => if r.stderr.contains("panicked at") { "panic" } else { "err" },
        None => "signal",
    }
}

/// create + list + extract through the library (the call sequence of `ragc create`, then the calls of
/// `listset` / `getset`: Decompressor::open, list_samples, write_sample_fasta)
fn observe_lib(c: &Value, wd: &Path, files: &[String], agc: &str) -> Result<Value> {
    util::install_panic_hook();
    let o = CreateOpts {
        files: files.to_vec(),
        out: agc.to_string(),
        k: c["k"].as_u64().unwrap() as usize,
        segment_size: c["seg"].as_u64().unwrap() as usize,
        min_match: c["mm"].as_u64().unwrap() as usize,
        threads: c["threads"].as_u64().unwrap() as usize,
        queue_capacity: 2usize << 30,
        fallback_frac: 0.0,
        pack_size: c["pack"].as_u64().unwrap_or(50) as usize,
        level: 17,
    };
    let (class, msg) = match util::catch(std::panic::AssertUnwindSafe(|| create_like_cli(&o))) {
        Ok(Ok(())) => ("ok", String::new()),
        Ok(Err(e)) => ("err", format!("{:#}", e)),
        Err(p) => ("panic", p),
    };
    if class != "ok" {
        return Ok(json!({"ev": "outcome", "kind": "error", "class": class, "msg": tail(&msg, 300), "samples": []}));
    }
    let open = util::catch(std::panic::AssertUnwindSafe(|| Decompressor::open(agc, DecompressorConfig { verbosity: 0 })));
    let mut d = match open {
        Ok(Ok(d)) => d,
        Ok(Err(e)) => return Ok(json!({"ev": "outcome", "kind": "unreadable", "class": "ok", "msg": tail(&format!("open: {:#}", e), 300), "samples": []})),
        Err(p) => return Ok(json!({"ev": "outcome", "kind": "unreadable", "class": "ok", "msg": tail(&format!("open panicked: {}", p), 300), "samples": []})),
    };
    let names = d.list_samples();
    let mut samples = vec![];
    for (i, n) in names.iter().enumerate() {
        let tmp = wd.join(format!("extract_{}.fa", i));
        let r = util::catch(std::panic::AssertUnwindSafe(|| d.write_sample_fasta(n, &tmp)));
        let (status, msg) = match r {
            Ok(Ok(())) => ("ok", String::new()),
            Ok(Err(e)) => ("fail", format!("{:#}", e)),
            Err(p) => ("fail", format!("panic: {}", p)),
        };
        let recs = if status == "ok" { cut_records(&std::fs::read(&tmp).unwrap_or_default()) } else { vec![] };
        samples.push(json!({"name": bj(n.as_bytes()), "status": status, "msg": tail(&msg, 300), "records": records_json(&recs)}));
        if status != "ok" {
            // a failed extraction may leave the handle in any state: continue on a fresh one
            if let Ok(Ok(nd)) = util::catch(std::panic::AssertUnwindSafe(|| Decompressor::open(agc, DecompressorConfig { verbosity: 0 }))) {
                d = nd;
            }
        }
    }
    Ok(json!({"ev": "outcome", "kind": "archive", "class": "ok", "msg": "", "samples": samples}))
}

/// the same through the real binary: `ragc create`, `listset`, `getset` (and `listctg`, recorded as information)
fn observe_cli(c: &Value, wd: &Path, files: &[String], agc: &str) -> Result<Value> {
    let ragc = c["ragc"].as_str().ok_or_else(|| anyhow!("case without ragc path"))?;
    let mut args: Vec<String> = vec!["create".into(), "-o".into(), agc.into(), "-k".into(), c["k"].to_string(), "-s".into(), c["seg"].to_string(),
                                     "-m".into(), c["mm"].to_string(), "-t".into(), c["threads"].to_string(), "-v".into(), "0".into()];
    if let Some(p) = c["pack"].as_u64() {
        args.push("-l".into());
        args.push(p.to_string());
    }
    args.extend(files.iter().cloned());
    let r = run_bin(ragc, &args, wd, "create", 600)?;
    let class = class_of_exit(&r);
    if class != "ok" {
        return Ok(json!({"ev": "outcome", "kind": "error", "class": class, "msg": r.stderr, "code": r.code, "samples": []}));
    }
    let ls = run_bin(ragc, &["listset".into(), agc.into()], wd, "listset", 300)?;
    if ls.code != Some(0) {
        return Ok(json!({"ev": "outcome", "kind": "unreadable", "class": "ok", "msg": format!("listset: {}", ls.stderr), "samples": []}));
    }
    let names: Vec<Vec<u8>> = ls.stdout.split(|&c| c == b'\n').filter(|l| !l.is_empty()).map(|l| l.to_vec()).collect();
    let mut samples = vec![];
    let mut listctg_disagrees = 0usize;
    for (i, n) in names.iter().enumerate() {
        let name = String::from_utf8_lossy(n).to_string();
        let g = run_bin(ragc, &["getset".into(), agc.into(), "--".into(), name.clone()], wd, &format!("getset{}", i), 300)?;
        let ok = g.code == Some(0);
        let recs = if ok { cut_records(&g.stdout) } else { vec![] };
        let lc = run_bin(ragc, &["listctg".into(), agc.into(), "--".into(), name.clone()], wd, &format!("listctg{}", i), 300)?;
        let listed: Vec<Vec<u8>> = lc.stdout.split(|&c| c == b'\n').filter(|l| !l.is_empty())
            .map(|l| l.splitn(2, |&c| c == b'\t').nth(1).unwrap_or(b"").to_vec()).collect();
        if ok && (lc.code != Some(0) || listed != recs.iter().map(|r| r.0.clone()).collect::<Vec<_>>()) {
            listctg_disagrees += 1;
        }
        samples.push(json!({"name": bj(n), "status": if ok { "ok" } else { "fail" }, "msg": if ok { String::new() } else { g.stderr.clone() },
                            "code": g.code, "records": records_json(&recs)}));
    }
    Ok(json!({"ev": "outcome", "kind": "archive", "class": "ok", "msg": "", "samples": samples, "listctg_disagrees": listctg_disagrees}))
}

/// Where did the unknown letters (code 30) go?  Measured with ragc's own reader on the finished archive
/// (information for the non-triviality counts; never part of a verdict).
fn measure(agc: &str) -> Value {
    let r = util::catch(std::panic::AssertUnwindSafe(|| -> Result<Value> {
        let mut d = Decompressor::open(agc, DecompressorConfig { verbosity: 0 })?;
        let (mut lz, mut refs, mut raw, mut lz_segs, mut ref_segs, mut raw_segs, mut rev_unknown, mut multi) = (0usize, 0usize, 0usize, 0usize, 0usize, 0usize, 0usize, 0usize);
        for s in d.list_samples() {
            for c in d.list_contigs(&s)? {
                let descs = d.get_contig_segments_desc(&s, &c)?;
                if descs.len() > 1 {
                    multi += 1;
                }
                for desc in descs {
                    let data = d.get_segment_data_by_desc(&desc)?;
                    let u = data.iter().filter(|&&x| x >= 16).count();
                    if desc.group_id < 16 {
                        raw_segs += 1;
                        raw += u;
                    } else if desc.in_group_id == 0 {
                        ref_segs += 1;
                        refs += u;
                    } else {
                        lz_segs += 1;
                        lz += u;
                    }
                    if desc.is_rev_comp && u > 0 {
                        rev_unknown += 1;
                    }
                }
            }
        }
        Ok(json!({"unknown_in_lz": lz, "unknown_in_ref": refs, "unknown_in_raw": raw, "lz_segments": lz_segs, "ref_segments": ref_segs,
                  "raw_segments": raw_segs, "unknown_in_reversed": rev_unknown, "contigs_with_several_segments": multi}))
    }));
    match r {
        Ok(Ok(v)) => v,
        Ok(Err(e)) => json!({"measure_failed": tail(&format!("{:#}", e), 200)}),
        Err(p) => json!({"measure_failed": tail(&p, 200)}),
    }
}

fn start_event(c: &Value, raw: &[Vec<u8>], m: Value) -> Value {
    let mut start = json!({"ev": "start", "feats": features(raw), "measure": m});
    for k in ["id", "origin", "via", "placement", "k", "seg", "mm", "threads", "toks", "crlf", "nofinal", "kind", "mode", "b"] {
        if !c[k].is_null() {
            start[k] = c[k].clone();
        }
    }
    start["file_names"] = Value::Array(c["files"].as_array().unwrap().iter().map(|f| f["name"].clone()).collect());
    start
}

/// One case: {id, origin, via "lib"|"cli", placement, k, seg, mm, threads, ragc, files: [{name, bytes}]} -> its events.
fn one_case(c: &Value, wd: &Path) -> Result<Vec<Value>> {
    std::fs::create_dir_all(wd)?;
    let mut files = vec![];
    let mut raw: Vec<Vec<u8>> = vec![];
    for f in c["files"].as_array().ok_or_else(|| anyhow!("case without files"))? {
        let p = wd.join(f["name"].as_str().unwrap());
        let b = jb(&f["bytes"]);
        std::fs::write(&p, &b)?;
        files.push(p.to_string_lossy().to_string());
        raw.push(b);
    }
    let agc = wd.join("a.agc").to_string_lossy().to_string();
    let t0 = std::time::Instant::now();
    let mut outcome = if c["via"] == "lib" { observe_lib(c, wd, &files, &agc)? } else { observe_cli(c, wd, &files, &agc)? };
    outcome["ms"] = json!(t0.elapsed().as_millis() as u64);
    let m = if outcome["kind"] == "archive" { measure(&agc) } else { json!({}) };
    let mut evs = vec![start_event(c, &raw, m)];
    for b in &raw {
        evs.push(json!({"ev": "file", "bytes": bj(b)}));
    }
    evs.push(outcome);
    Ok(evs)
}

/// (internal) `--case F`: F = {"cases": [case, ...]}; the cases are run one after the other in this process (library
/// cases share the process so that the allocator re-uses the big compression contexts); the events of every finished
/// case are flushed at once, so that the parent knows which case took the process down if that happens.
fn cmd_case(a: &Args) -> Result<()> {
    let c: Value = serde_json::from_slice(&std::fs::read(a.get("case")?)?)?;
    let wd = PathBuf::from(a.get("dir")?);
    let cases: Vec<Value> = match c["cases"].as_array() {
        Some(v) => v.clone(),
        None => vec![c.clone()],
    };
    let mut out = std::fs::File::create(a.get("out")?)?;
    for (i, c) in cases.iter().enumerate() {
        let sub = wd.join(format!("k{}", i));
        let evs = one_case(c, &sub)?;
        let mut buf = Vec::new();
        for e in &evs {
            writeln!(buf, "{}", e)?;
        }
        out.write_all(&buf)?;
        out.flush()?;
        let _ = std::fs::remove_dir_all(&sub);
    }
    Ok(())
}

// ------------------------------------------------------------------------------------------------
// running many cases in child processes
// ------------------------------------------------------------------------------------------------
fn crash_events(c: &Value, msg: &str) -> Vec<Value> {
    let raw: Vec<Vec<u8>> = c["files"].as_array().unwrap().iter().map(|f| jb(&f["bytes"])).collect();
    let mut evs = vec![start_event(c, &raw, json!({}))];
    for b in &raw {
        evs.push(json!({"ev": "file", "bytes": bj(b)}));
    }
    evs.push(json!({"ev": "outcome", "kind": "error", "class": "crash", "msg": msg, "samples": []}));
    evs
}

/// Library cases are grouped into batches of `batch` per child process, binary cases run one per child.
fn run_cases(cases: Vec<Value>, dir: &str, jobs: usize, batch: usize) -> Result<Vec<Vec<Value>>> {
    std::fs::create_dir_all(dir)?;
    let dir_abs = std::fs::canonicalize(dir)?;
    let dir = dir_abs.to_string_lossy().to_string();
    let dir = dir.as_str();
    let me = std::env::current_exe()?.to_string_lossy().to_string();
    // work items: lists of case indices; the binary cases first (they are the slow ones)
    let mut items: Vec<Vec<usize>> = vec![];
    for (i, c) in cases.iter().enumerate() {
        if c["via"] != "lib" {
            items.push(vec![i]);
        }
    }
    let libs: Vec<usize> = (0..cases.len()).filter(|&i| cases[i]["via"] == "lib").collect();
    for ch in libs.chunks(batch.max(1)) {
        items.push(ch.to_vec());
    }
    let next = AtomicUsize::new(0);
    let results: Mutex<Vec<Option<Vec<Value>>>> = Mutex::new(vec![None; cases.len()]);
    let err: Mutex<Option<String>> = Mutex::new(None);
    std::thread::scope(|sc| {
        for _ in 0..jobs.max(1) {
            sc.spawn(|| loop {
                let w = next.fetch_add(1, Ordering::SeqCst);
                if w >= items.len() || err.lock().unwrap().is_some() {
                    break;
                }
                let r = (|| -> Result<()> {
                    let mut todo: Vec<usize> = items[w].clone();
                    let mut round = 0;
                    while !todo.is_empty() {
                        let wd = PathBuf::from(dir).join(format!("w{}_{}", w, round));
                        round += 1;
                        std::fs::create_dir_all(&wd)?;
                        let cp = wd.join("case.json");
                        std::fs::write(&cp, serde_json::to_vec(&json!({"cases": todo.iter().map(|&i| cases[i].clone()).collect::<Vec<_>>()}))?)?;
                        let ep = wd.join("events.ndjson");
                        let args: Vec<String> = vec!["fasta-case".into(), "--case".into(), cp.to_string_lossy().into(), "--dir".into(), wd.to_string_lossy().into(),
                                                     "--out".into(), ep.to_string_lossy().into()];
                        let r = run_bin(&me, &args, &wd, "child", 1800)?;
                        let evs: Vec<Value> = std::fs::read_to_string(&ep).unwrap_or_default().lines().filter(|l| !l.trim().is_empty())
                            .map(|l| serde_json::from_str(l)).collect::<std::result::Result<_, _>>()?;
                        let mut done = 0usize;
                        let mut cur: Vec<Value> = vec![];
                        for e in evs {
                            let is_outcome = e["ev"] == "outcome";
                            cur.push(e);
                            if is_outcome {
                                results.lock().unwrap()[todo[done]] = Some(std::mem::take(&mut cur));
                                done += 1;
                            }
                        }
                        if r.code == Some(0) && done == todo.len() {
                            todo.clear();
                        } else if done < todo.len() && cases[todo[done]]["via"] == "lib" && !r.stderr.contains("rvh fasta-case: error")
                            && (r.code.is_none() || r.code == Some(134) || r.code == Some(101) || r.stderr.contains("panicked") || r.stderr.contains("abort") || r.stderr.contains("overflow")) {
                            // the library call took the whole process down (abort, stack overflow, a panic that exits the
                            // process): this create did not succeed; the rest of the batch is run in a new process
                            results.lock().unwrap()[todo[done]] = Some(crash_events(&cases[todo[done]], &format!("process died (code {:?}): {}", r.code, r.stderr)));
                            todo.drain(..done + 1);
                        } else {
                            bail!("fasta-case {} failed (code {:?}): {}", cases[todo[done.min(todo.len() - 1)]]["id"], r.code, r.stderr);
                        }
                        let _ = std::fs::remove_dir_all(&wd);
                    }
                    Ok(())
                })();
                if let Err(e) = r {
                    *err.lock().unwrap() = Some(format!("{:#}", e));
                    break;
                }
            });
        }
    });
    if let Some(e) = err.lock().unwrap().take() {
        bail!("{}", e);
    }
    Ok(results.into_inner().unwrap().into_iter().map(|x| x.unwrap_or_default()).collect())
}

// ------------------------------------------------------------------------------------------------
// setup: the fixed reference sample and the token table
// ------------------------------------------------------------------------------------------------
fn wrap(seq: &[u8], w: usize, out: &mut Vec<u8>) {
    for c in seq.chunks(w) {
        out.extend_from_slice(c);
        out.push(b'\n');
    }
}

struct Setup {
    k: u64,
    seg: u64,
    mm: u64,
    reference: Vec<u8>,
    tokens: Vec<(String, Vec<u8>)>,
}

/// Segment spans (start, end) of the reference's first contig, from a probe archive of the reference alone: consecutive
/// segments overlap by k symbols.  None if anything is unexpected (then default offsets are used).
fn probe_segments(reference: &[u8], contig_len: usize, k: u64, seg: u64, mm: u64) -> Option<Vec<(usize, usize)>> {
    let r = util::catch(std::panic::AssertUnwindSafe(|| -> Result<Vec<(usize, usize)>> {
        let td = tempfile::tempdir()?;
        let fa = td.path().join("r0.fa");
        std::fs::write(&fa, reference)?;
        let agc = td.path().join("p.agc").to_string_lossy().to_string();
        create_like_cli(&CreateOpts { files: vec![fa.to_string_lossy().to_string()], out: agc.clone(), k: k as usize, segment_size: seg as usize,
            min_match: mm as usize, threads: 1, queue_capacity: 2usize << 30, fallback_frac: 0.0, pack_size: 50, level: 17 })?;
        let mut d = Decompressor::open(&agc, DecompressorConfig { verbosity: 0 })?;
        let s = d.list_samples();
        let c = d.list_contigs(&s[0])?;
        let descs = d.get_contig_segments_desc(&s[0], &c[0])?;
        let mut spans = vec![];
        let mut start = 0usize;
        for (i, desc) in descs.iter().enumerate() {
            let len = d.get_segment_data_by_desc(desc)?.len();
            if i > 0 {
                start -= k as usize;
            }
            spans.push((start, start + len));
            start += len;
        }
        if start != contig_len {
            bail!("segment spans do not tile the contig");
        }
        Ok(spans)
    }));
    match r {
        Ok(Ok(v)) => Some(v),
        _ => None,
    }
}

fn make_setup(seed: u64, k: u64, seg: u64, mm: u64) -> Setup {
    let mut r = util::rng(seed ^ 0xC16C16);
    let ref1: Vec<u8> = (0..300).map(|_| b"ACGT"[r.gen_range(0..4)]).collect();
    let ref2: Vec<u8> = (0..140).map(|_| b"ACGT"[r.gen_range(0..4)]).collect();
    let mut reference = b">ref1\n".to_vec();
    wrap(&ref1, 60, &mut reference);
    reference.extend_from_slice(b">ref2 second contig\n");
    wrap(&ref2, 70, &mut reference);
    // SA: a piece of ref1 as it is.  SX: a piece of ref1 that covers one reference segment completely (with both its
    // splitter k-mers intact) plus its neighbours, with unknown letters (upper and lower case) and IUPAC codes (R, y, U, n)
    // in the MIDDLE of that segment and a lower-case stretch elsewhere: as a non-reference sample that segment has the
    // same splitter pair as the reference's and is LZ-encoded against it.  The segment is located with a probe archive
    // of the reference alone (fallback: fixed offsets); where the letters really went is measured on every archive.
    let sa = ref1[30..120].to_vec();
    let ku = k as usize;
    let (from, to, centre) = match probe_segments(&reference, ref1.len(), k, seg, mm) {
        Some(spans) if spans.len() >= 3 => {
            // the longest inner segment
            let j = (1..spans.len() - 1).max_by_key(|&j| spans[j].1 - spans[j].0).unwrap();
            let (a, b) = spans[j];
            if b - a >= 2 * ku + 12 {
                (spans[j - 1].0.max(a.saturating_sub(45)), spans[j + 1].1.min(b + 45), (a + b) / 2)
            } else {
                (100, 200, 150)
            }
        }
        _ => (100, 200, 150),
    };
    let mut sx = ref1[from..to].to_vec();
    let c = centre - from;
    for (off, ch) in [(-4i64, b'X'), (-3, b'j'), (-1, b'R'), (1, b'y'), (2, b'U'), (3, b'n'), (4, b'Z')] {
        sx[(c as i64 + off) as usize] = ch;
    }
    let n = sx.len();
    for ch in sx[n - 12..n - 4].iter_mut() {
        *ch = ch.to_ascii_lowercase();
    }
    for ch in sx[2..6].iter_mut() {
        *ch = ch.to_ascii_lowercase();
    }
    let tokens = vec![
        ("H1".to_string(), b">h1".to_vec()),
        ("H2".to_string(), b">h2 d  e".to_vec()),
        ("HE".to_string(), b">".to_vec()),
        ("SA".to_string(), sa),
        ("SX".to_string(), sx),
        ("SD".to_string(), b"12-*.".to_vec()),
        ("BL".to_string(), vec![]),
    ];
    Setup { k, seg, mm, reference, tokens }
}

fn setup_json(s: &Setup) -> Value {
    json!({"k": s.k, "seg": s.seg, "mm": s.mm, "reference": bj(&s.reference),
           "tokens": s.tokens.iter().map(|(n, b)| json!({"name": n, "bytes": bj(b)})).collect::<Vec<_>>()})
}

fn cmd_setup(a: &Args) -> Result<()> {
    util::install_panic_hook();
    let s = make_setup(a.num("seed", 1u64), a.num("k", 7u64), a.num("seg", 24u64), a.num("mm", 6u64));
    std::fs::write(a.get("out")?, serde_json::to_vec(&setup_json(&s))?)?;
    println!("{}", json!({"tokens": s.tokens.len(), "reference_bytes": s.reference.len()}));
    Ok(())
}

// ------------------------------------------------------------------------------------------------
// REPLAY
// ------------------------------------------------------------------------------------------------
/// The real record reader on a text: Ok(records as (name, letters through the output table)) or Err.
fn real_reader(text: &[u8]) -> std::result::Result<Vec<(Vec<u8>, Vec<u8>)>, String> {
    let t = text.to_vec();
    let r = util::catch(std::panic::AssertUnwindSafe(move || -> std::result::Result<Vec<(Vec<u8>, Vec<u8>)>, String> {
        let mut g = GenomeIO::new(std::io::Cursor::new(t));
        let mut out = vec![];
        loop {
            match g.read_contig_converted() {
                Ok(Some((id, codes))) => out.push((id.into_bytes(), codes.iter().map(|&c| if c < 16 { ragc_core::CNV_NUM[c as usize] } else { b'N' }).collect())),
                Ok(None) => return Ok(out),
                Err(e) => return Err(format!("{}", e)),
            }
        }
    }));
    match r {
        Ok(x) => x,
        Err(p) => Err(format!("panic: {}", p)),
    }
}

fn model_records(v: &Value) -> Vec<(Vec<u8>, Vec<u8>)> {
    v.as_array().map(|a| a.iter().map(|r| (jb(&r["name"]), jb(&r["seq"]))).collect()).unwrap_or_default()
}

fn cmd_replay(a: &Args) -> Result<()> {
    util::install_panic_hook();
    let setup: Value = serde_json::from_slice(&std::fs::read(a.get("setup")?)?)?;
    let ragc = a.get("ragc")?.to_string();
    let dir = a.get("dir")?.to_string();
    let jobs: usize = a.num("jobs", 8usize);
    let reference = jb(&setup["reference"]);
    let text = std::fs::read_to_string(a.get("in")?)?;
    let behaviours: Vec<Value> = text.lines().filter(|l| !l.trim().is_empty()).map(|l| serde_json::from_str(l)).collect::<std::result::Result<_, _>>()?;
    // (1) the record reader, prefix by prefix
    let mut steps = 0usize;
    let mut reader_errors = 0usize;
    let mut reader_diverged = vec![];
    for (bi, b) in behaviours.iter().enumerate() {
        let mut prefix: Vec<u8> = vec![];
        for (si, st) in b["steps"].as_array().unwrap().iter().enumerate() {
            prefix.extend(jb(&st["raw"]));
            steps += 1;
            let want: Vec<_> = model_records(&st["eof"]).into_iter().filter(|r| !r.1.is_empty()).collect();
            match real_reader(&prefix) {
                Err(_) => reader_errors += 1,
                Ok(got) => {
                    let got: Vec<_> = got.into_iter().filter(|r| !r.1.is_empty()).collect();
                    if got != want && reader_diverged.len() < 20 {
                        reader_diverged.push(json!({"behaviour": bi, "step": si, "toks": b["toks"], "crlf": b["crlf"], "nofinal": b["nofinal"],
                            "model": records_json(&want), "reader": records_json(&got)}));
                    }
                }
            }
        }
        if prefix != jb(&b["bytes"]) {
            bail!("behaviour {}: the concatenated step bytes differ from the behaviour's bytes", bi);
        }
    }
    // (2) create / list / extract
    // every behaviour goes through the library call sequence in both placements; every --cli-every'th one (and all of at
    // most --both-upto tokens) also through the real binary
    let both_upto: usize = a.num("both-upto", 1usize);
    let cli_every: usize = a.num("cli-every", 3usize).max(1);
    let mut cases = vec![];
    for (bi, b) in behaviours.iter().enumerate() {
        let ntok = b["toks"].as_array().map(|x| x.len()).unwrap_or(0);
        for placement in ["solo", "nonref"] {
            let vias: Vec<&str> = if ntok <= both_upto || bi % cli_every == 0 { vec!["lib", "cli"] } else { vec!["lib"] };
            for via in &vias {
                let mut files = vec![];
                if placement == "nonref" {
                    files.push(json!({"name": "r0.fa", "bytes": bj(&reference)}));
                }
                files.push(json!({"name": "t.fa", "bytes": b["bytes"]}));
                cases.push(json!({"id": format!("b{}_{}_{}", bi, placement, via), "origin": "replay", "b": bi, "via": via, "placement": placement,
                    "toks": b["toks"], "crlf": b["crlf"], "nofinal": b["nofinal"],
                    "k": setup["k"], "seg": setup["seg"], "mm": setup["mm"], "threads": if bi % 2 == 0 { 1 } else { 3 }, "ragc": ragc, "files": files}));
            }
        }
    }
    let n_cases = cases.len();
    let all = run_cases(cases, &dir, jobs, a.num("batch", 20usize))?;
    let mut out = std::io::BufWriter::new(std::fs::File::create(a.get("events")?)?);
    for evs in &all {
        for e in evs {
            writeln!(out, "{}", e)?;
        }
    }
    out.flush()?;
    println!("{}", json!({"behaviours": behaviours.len(), "steps": steps, "cases": n_cases, "reader_errors": reader_errors, "reader_diverged": reader_diverged, "fails": []}));
    Ok(())
}

// ------------------------------------------------------------------------------------------------
// TRACE: seeded random byte-level FASTA texts on top of the gen-case collections
// ------------------------------------------------------------------------------------------------
const UNKNOWN_LETTERS: &[u8] = b"EFIJLOPQXZefijlopqxz";
const JUNK: &[u8] = b"0123456789-*.";

struct TextOpts {
    unknown_rate: f64,
    lower: u8,         // 0 upper, 1 lower, 2 mixed
    junk_rate: f64,
    width: usize,      // 0 = one line
    crlf: u8,          // 0 LF, 1 CR LF, 2 per line
    blank_rate: f64,
    empty_rate: f64,
    leading_blank: usize,
    trailing_blank: usize,
    final_newline: bool,
    random_headers: bool,
    dup_header: bool,
}

fn random_header(r: &mut StdRng, prefix: &str, idx: usize) -> Vec<u8> {
    // printable ASCII; blanks inside and around; made unique inside the file by the index
    let mut h: Vec<u8> = prefix.as_bytes().to_vec();
    let n = r.gen_range(1..16);
    for i in 0..n {
        let mut c = if r.gen_bool(0.12) { b' ' } else { r.gen_range(33..127u8) };
        if prefix.is_empty() && i == 0 && (c == b'>' || c == b' ') {
            c = b'c';
        }
        if !prefix.is_empty() && c == b'#' {
            c = b'_';
        }
        h.push(c);
    }
    h.extend_from_slice(format!("|{}", idx).as_bytes());
    if r.gen_bool(0.2) {
        h.insert(0, b' ');
    }
    if r.gen_bool(0.2) {
        h.extend_from_slice(b"  ");
    }
    h
}

/// One FASTA text for the contigs of one sample.
fn random_text(r: &mut StdRng, contigs: &[gen::Contig], o: &TextOpts, pansn_prefix: Option<&str>) -> Vec<u8> {
    let mut out: Vec<u8> = vec![];
    let mut line_no = 0usize;
    let nl = |out: &mut Vec<u8>, r: &mut StdRng, line_no: &mut usize| {
        let cr = match o.crlf { 0 => false, 1 => true, _ => r.gen_bool(0.5) };
        if cr {
            out.push(b'\r');
        }
        out.push(b'\n');
        *line_no += 1;
    };
    for _ in 0..o.leading_blank {
        nl(&mut out, r, &mut line_no);
    }
    let mut idx = 0usize;
    let empty_record = |out: &mut Vec<u8>, r: &mut StdRng, line_no: &mut usize, idx: &mut usize| {
        out.push(b'>');
        out.extend(random_header(r, pansn_prefix.unwrap_or(""), 9000 + *idx));
        *idx += 1;
        nl(out, r, line_no);
        match r.gen_range(0..3) {
            0 => {}
            1 => nl(out, r, line_no),
            _ => {
                for _ in 0..r.gen_range(1..8) {
                    out.push(JUNK[r.gen_range(0..JUNK.len())]);
                }
                nl(out, r, line_no);
            }
        }
    };
    let mut first_header: Option<Vec<u8>> = None;
    for c in contigs {
        if r.gen_bool(o.empty_rate) {
            empty_record(&mut out, r, &mut line_no, &mut idx);
        }
        out.push(b'>');
        let h: Vec<u8> = if o.dup_header && first_header.is_some() && r.gen_bool(0.5) {
            first_header.clone().unwrap()
        } else if o.random_headers {
            random_header(r, pansn_prefix.unwrap_or(""), idx)
        } else {
            c.name.bytes().map(|b| if b == b'\t' { b' ' } else { b }).collect()     // (the gen-case names may hold a TAB: not printable)
        };
        idx += 1;
        if first_header.is_none() {
            first_header = Some(h.clone());
        }
        out.extend_from_slice(&h);
        nl(&mut out, r, &mut line_no);
        // the sequence as letters
        let mut letters: Vec<u8> = Vec::with_capacity(c.seq.len());
        for &code in &c.seq {
            let mut ch = gen::CODE2CHAR[code as usize];
            if r.gen_bool(o.unknown_rate) {
                ch = UNKNOWN_LETTERS[r.gen_range(0..UNKNOWN_LETTERS.len())];
                if r.gen_bool(0.1) {
                    // a short run of unknown letters
                    for _ in 0..r.gen_range(1..5) {
                        letters.push(UNKNOWN_LETTERS[r.gen_range(0..UNKNOWN_LETTERS.len())]);
                    }
                }
            }
            let ch = match o.lower {
                1 => ch.to_ascii_lowercase(),
                2 => if r.gen_bool(0.5) { ch.to_ascii_lowercase() } else { ch },
                _ => ch,
            };
            letters.push(ch);
        }
        let w = if o.width == 0 { letters.len().max(1) } else { o.width };
        let chunks: Vec<&[u8]> = letters.chunks(w).collect();
        for (li, chunk) in chunks.iter().enumerate() {
            for &ch in chunk.iter() {
                if r.gen_bool(o.junk_rate) {
                    out.push(JUNK[r.gen_range(0..JUNK.len())]);
                }
                out.push(ch);
            }
            nl(&mut out, r, &mut line_no);
            if li + 1 < chunks.len() && r.gen_bool(o.blank_rate) {
                nl(&mut out, r, &mut line_no); // interior blank line
            }
        }
        if r.gen_bool(o.blank_rate) {
            nl(&mut out, r, &mut line_no); // blank line between records
        }
    }
    if r.gen_bool(o.empty_rate) {
        empty_record(&mut out, r, &mut line_no, &mut idx);
    }
    for _ in 0..o.trailing_blank {
        nl(&mut out, r, &mut line_no);
    }
    if !o.final_newline {
        // cut the last line terminator (LF or CR LF)
        if out.last() == Some(&b'\n') {
            out.pop();
            if out.last() == Some(&b'\r') {
                out.pop();
            }
        }
    }
    out
}

fn cmd_trace(a: &Args) -> Result<()> {
    let seed: u64 = a.num("seed", 1u64);
    let n: usize = a.num("cases", 40usize);
    let jobs: usize = a.num("jobs", 8usize);
    let ragc = a.get("ragc")?.to_string();
    let dir = a.get("dir")?.to_string();
    let cli_every: usize = a.num("cli-every", 3usize).max(1);
    let kinds = ["basic", "iupac", "short", "rc", "dup", "reorder", "trunc", "basic", "iupac", "short"];
    let mut cases = vec![];
    for i in 0..n {
        let mut r = util::rng(seed.wrapping_mul(7919).wrapping_add(i as u64 * 104729 + 17));
        let kind = kinds[i % kinds.len()];
        let single = i % 5 == 3;
        let k = [5u64, 7, 9, 11][r.gen_range(0..4)];
        let seg = [10u64, 16, 24, 40, 80][r.gen_range(0..5)];
        let mm = [6u64, 8, 12, 15][r.gen_range(0..4)];
        let go = gen::GenOpts { seed: seed * 1000 + i as u64, kind: kind.to_string(), n_samples: r.gen_range(2..5), n_chrom: r.gen_range(1..4),
                                chrom_len: [120usize, 250, 400, 700][r.gen_range(0..4)], pansn: single };
        let samples = gen::generate(&go);
        let crlf = [0u8, 0, 1, 2][r.gen_range(0..4)];
        let unknown_rate = [0.0, 0.004, 0.015, 0.05][r.gen_range(0..4)];
        let mut files = vec![];
        let mut single_text: Vec<u8> = vec![];
        for (si, s) in samples.iter().enumerate() {
            let o = TextOpts {
                unknown_rate: if r.gen_bool(0.8) { unknown_rate } else { 0.0 },
                lower: r.gen_range(0..3),
                junk_rate: [0.0, 0.0, 0.01, 0.05][r.gen_range(0..4)],
                width: [0usize, 1, 7, 30, 60, 80][r.gen_range(0..6)],
                crlf,
                blank_rate: [0.0, 0.05, 0.3][r.gen_range(0..3)],
                empty_rate: [0.0, 0.15, 0.5][r.gen_range(0..3)],
                leading_blank: if single && si > 0 { 0 } else { [0usize, 0, 1, 3][r.gen_range(0..4)] },
                trailing_blank: [0usize, 0, 1, 2][r.gen_range(0..4)],
                final_newline: if single && si + 1 < samples.len() { true } else { r.gen_bool(0.6) },
                random_headers: r.gen_bool(0.5),
                dup_header: r.gen_bool(0.06),
            };
            let prefix = format!("{}#", s.name);
            let t = random_text(&mut r, &s.contigs, &o, if single { Some(&prefix) } else { None });
            if single {
                single_text.extend(t);
            } else {
                files.push(json!({"name": format!("{}.fa", s.name), "bytes": bj(&t)}));
            }
        }
        if single {
            files.push(json!({"name": "pansn.fa", "bytes": bj(&single_text)}));
        }
        cases.push(json!({"id": format!("t{}_{}_{}", i, kind, if single { "single" } else { "multi" }), "origin": "trace", "via": if i % cli_every == 0 { "cli" } else { "lib" },
            "placement": if single { "single" } else { "multi" }, "kind": kind, "mode": if single { "single" } else { "multi" },
            "k": k, "seg": seg, "mm": mm, "threads": r.gen_range(1..5), "ragc": ragc, "files": files}));
    }
    let all = run_cases(cases, &dir, jobs, a.num("batch", 8usize))?;
    let mut out = std::io::BufWriter::new(std::fs::File::create(a.get("out")?)?);
    let mut bytes = 0usize;
    for evs in &all {
        for e in evs {
            if e["ev"] == "file" {
                bytes += e["bytes"].as_array().map(|x| x.len()).unwrap_or(0);
            }
            writeln!(out, "{}", e)?;
        }
    }
    out.flush()?;
    println!("{}", json!({"cases": all.len(), "input_bytes": bytes}));
    Ok(())
}
