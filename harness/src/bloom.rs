//! Binding of spec/Bloom.tla to ragc_core::bloom_filter::BloomFilter: TLC-generated call sequences are executed on a real
//! filter; after each call size_bits() and filling_factor() must equal the model's, every k-mer the model knows to be
//! inserted must be reported by check(), and an empty filter must answer "no" for every k-mer of the universe.
use crate::util::{self, Args};
use anyhow::Result;
use ragc_core::bloom_filter::BloomFilter;
use serde_json::{json, Value};
use std::io::BufRead;

pub fn dispatch(cmd: &str, a: &Args) -> Option<Result<()>> {
    match cmd {
        "replay-bloom" => Some(replay(a)),
        _ => None,
    }
}

/// the abstract k-mers 1..3 as real packed values (one with the top bits set, one small, one arbitrary)
fn real(k: u64) -> u64 {
    [0u64, 0xFFFF_FFFF_0000_0001, 7, 0x1234_5678_9ABC_DEF0][(k as usize).min(3)]
}

fn replay(a: &Args) -> Result<()> {
    util::install_panic_hook();
    let f = std::fs::File::open(a.get("in")?)?;
    let (mut n, mut steps) = (0u64, 0u64);
    let mut fails: Vec<Value> = vec![];
    for line in std::io::BufReader::new(f).lines() {
        let line = line?;
        if line.trim().is_empty() {
            continue;
        }
        let b: Value = serde_json::from_str(&line)?;
        n += 1;
        let r = util::catch(|| {
            let mut bf = BloomFilter::new(b["size0"].as_u64().unwrap() as usize);
            for (i, st) in b["steps"].as_array().unwrap().iter().enumerate() {
                let mut bad: Vec<String> = vec![];
                match st["op"].as_str().unwrap() {
                    "insert" => bf.insert(real(st["k"].as_u64().unwrap())),
                    "clear" => bf.clear(),
                    "resize" => bf.resize(st["n"].as_u64().unwrap() as usize),
                    o => bad.push(format!("unknown op {}", o)),
                }
                let post = &st["post"];
                if bf.size_bits() as u64 != post["size"].as_u64().unwrap() {
                    bad.push(format!("size_bits = {} (model {})", bf.size_bits(), post["size"]));
                }
                let want_ff = post["items"].as_u64().unwrap() as f64 / post["cap"].as_u64().unwrap() as f64;
                if (bf.filling_factor() - want_ff).abs() > 1e-12 {
                    bad.push(format!("filling_factor = {} (model {})", bf.filling_factor(), want_ff));
                }
                for k in st["must"].as_array().unwrap() {
                    if !bf.check(real(k.as_u64().unwrap())) {
                        bad.push(format!("false negative for inserted k-mer {}", k));
                    }
                }
                if st["empty"].as_bool().unwrap() {
                    for k in 1..=3u64 {
                        if bf.check(real(k)) {
                            bad.push(format!("empty filter reports k-mer {}", k));
                        }
                    }
                }
                if !bad.is_empty() {
                    return Some(json!({"step": i, "op": st, "diff": bad}));
                }
            }
            None
        });
        steps += b["steps"].as_array().unwrap().len() as u64;
        match r {
            Ok(None) => {}
            Ok(Some(mut v)) => {
                v["behaviour"] = b.clone();
                fails.push(v);
            }
            Err(p) => fails.push(json!({"panic": p, "behaviour": b})),
        }
        if fails.len() >= 20 {
            break;
        }
    }
    println!("{}", json!({"behaviours": n, "steps": steps, "fails": fails}));
    Ok(())
}
