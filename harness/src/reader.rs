//! Binding of spec/Reader.tla (C08) to ragc_core::Decompressor.
//!
//!  reader-build   generate a collection (crate::gen, kind manysamples => several metadata batches) with a few
//!                 short / orphan contigs added (raw groups), and create the archive with the CLI's call sequence
//!  reader-info    the archive abstraction the specification is parameterised with (batches, contigs, groups of
//!                 every contig, kind of every reference part) -- catalogue from a fresh handle, reference part
//!                 metadata and batch count from the independent lexer (crate::lex)
//!  replay-reader  REPLAY: every behaviour printed by MC_Reader (sequences over the abstract alphabet) is mapped to
//!                 concrete names of the real archive and executed on ONE real handle; after every call the class
//!                 (ok / err / panic) is compared with the model's and the digest of the answer with that of the
//!                 same call on a FRESH handle (table computed once)
//!  trace-reader   TRACE: random call sequences run concurrently on clone_for_thread handles; every call is one
//!                 event (thread, op, class, digest) validated by Trace_Reader against the stateless table in the
//!                 header record
//! The harness only maps names, drives the real API and digests answers; a panic is data (util::catch).
use crate::archive::{create_like_cli, CreateOpts};
use crate::gen;
use crate::lex;
use crate::util::{self, Args};
use anyhow::{anyhow, bail, Result};
use ragc_common::SegmentDesc;
use ragc_core::{Decompressor, DecompressorConfig};
use rand::rngs::StdRng;
use rand::seq::SliceRandom;
use rand::Rng;
use rayon::prelude::*;
use serde_json::{json, Map, Value};
use std::collections::{BTreeMap, BTreeSet};
use std::io::{BufRead, Write};
use std::panic::AssertUnwindSafe;
use std::sync::{Arc, Barrier, Mutex};

pub fn dispatch(cmd: &str, a: &Args) -> Option<Result<()>> {
    match cmd {
        "reader-build" => Some(cmd_build(a)),
        "reader-info" => Some(cmd_info(a)),
        "replay-reader" => Some(cmd_replay(a)),
        "trace-reader" => Some(cmd_trace(a)),
        _ => None,
    }
}

const PACK: usize = 50; // samples per metadata batch (format constant)
const NO_RAW_GROUPS: u32 = 16;

fn open(agc: &str) -> Result<Decompressor> {
    Decompressor::open(agc, DecompressorConfig { verbosity: 0 })
}

// ------------------------------------------------------------------------------------------------
// building archives
// ------------------------------------------------------------------------------------------------
fn cmd_build(a: &Args) -> Result<()> {
    util::install_panic_hook();
    let seed = a.num("seed", 1u64);
    let dir = a.get("dir")?.to_string();
    let o = gen::GenOpts {
        seed,
        kind: "manysamples".to_string(),
        n_samples: a.num("samples", 60usize),
        n_chrom: a.num("chroms", 2usize),
        chrom_len: a.num("len", 300usize),
        pansn: false,
    };
    let k = a.num("k", 9usize);
    let mut samples = gen::generate(&o);
    let mut r = util::rng(seed ^ 0xC08);
    // sample i is named q<i mod 10>_<i>: a prefix "q<d>_" matches few samples, some in every batch
    let n = samples.len();
    for (i, s) in samples.iter_mut().enumerate() {
        s.name = format!("q{}_{:03}", i % 10, i);
    }
    // raw groups: contigs shorter than k and contigs without any splitter of the reference, in about a third of
    // the samples (at least two per batch), never in the reference sample
    let mut extra: BTreeSet<usize> = BTreeSet::new();
    for b in 0..((n + PACK - 1) / PACK) {
        let lo = (b * PACK).max(1);
        let hi = ((b + 1) * PACK).min(n);
        for i in lo..hi {
            if r.gen_bool(0.35) {
                extra.insert(i);
            }
        }
        for _ in 0..2 {
            extra.insert(r.gen_range(lo..hi));
        }
    }
    for &i in &extra {
        let s = &mut samples[i];
        for (j, l) in [1usize, k.saturating_sub(2).max(2), k + 3].iter().enumerate() {
            s.contigs.push(gen::Contig { name: format!("xs{}", j + 1), seq: (0..*l).map(|_| r.gen_range(0..4u8)).collect() });
        }
        let l = 150 + r.gen_range(0..120usize);
        s.contigs.push(gen::Contig { name: "xo1".to_string(), seq: (0..l).map(|_| r.gen_range(0..4u8)).collect() });
    }
    let files = gen::write_files(&dir, &samples, false, &gen::Present::default(), seed)?;
    let out = format!("{}/a.agc", dir);
    let co = CreateOpts {
        files,
        out: out.clone(),
        k,
        segment_size: a.num("seg", 50usize),
        min_match: a.num("mm", 15usize),
        threads: a.num("threads", 3usize),
        queue_capacity: 2usize << 30,
        fallback_frac: 0.0,
        pack_size: PACK,
        level: 17,
    };
    let res = util::catch(AssertUnwindSafe(|| create_like_cli(&co)));
    match res {
        Ok(Ok(())) => {}
        Ok(Err(e)) => bail!("create failed: {:#}", e),
        Err(p) => bail!("create panicked: {}", p),
    }
    let info = Info::measure(&out)?;
    println!("{}", json!({"agc": out, "n_samples": samples.len(), "with_extra_contigs": extra.len(), "measured": info.counts()}));
    Ok(())
}

// ------------------------------------------------------------------------------------------------
// the archive abstraction
// ------------------------------------------------------------------------------------------------
pub struct Info {
    agc: String,
    samples: Vec<String>,
    batches: Vec<Vec<String>>,
    contigs: BTreeMap<String, Vec<String>>,
    segs: BTreeMap<String, BTreeMap<String, Vec<SegmentDesc>>>,
    refkind: BTreeMap<u32, &'static str>,
    k: usize,
}

impl Info {
    fn measure(agc: &str) -> Result<Info> {
        let d = open(agc)?;
        let samples = d.list_samples();
        let k = d.kmer_length as usize;
        let mut contigs = BTreeMap::new();
        let mut segs = BTreeMap::new();
        let mut groups: BTreeSet<u32> = BTreeSet::new();
        for s in &samples {
            // one fresh handle per sample: the abstraction itself must not depend on history
            let mut f = open(agc)?;
            let cs = f.list_contigs(s)?;
            let mut m = BTreeMap::new();
            for c in &cs {
                let sd = f.get_contig_segments_desc(s, c)?;
                for x in &sd {
                    groups.insert(x.group_id);
                }
                m.insert(c.clone(), sd);
            }
            contigs.insert(s.clone(), cs);
            segs.insert(s.clone(), m);
        }
        // independent lexer: number of metadata batches, metadata of every reference part
        let view = lex::parse_archive(agc)?;
        let nb = view.stream("collection-contigs").map(|s| s.parts.len()).ok_or_else(|| anyhow!("no collection-contigs stream"))?;
        let batches: Vec<Vec<String>> = samples.chunks(PACK).map(|c| c.to_vec()).collect();
        if batches.len() != nb {
            bail!("abstraction: {} samples give {} batches of {} but the archive has {} contig batches", samples.len(), batches.len(), PACK, nb);
        }
        let ver = ragc_common::AGC_FILE_MAJOR * 1000 + ragc_common::AGC_FILE_MINOR;
        let mut refkind = BTreeMap::new();
        for &g in &groups {
            let kind = if g < NO_RAW_GROUPS {
                "none"
            } else {
                match view.stream(&ragc_common::stream_ref_name(ver, g)) {
                    Some(st) if !st.parts.is_empty() => {
                        if st.parts[0].meta == 0 {
                            "raw"
                        } else {
                            "zstd"
                        }
                    }
                    _ => "none",
                }
            };
            refkind.insert(g, kind);
        }
        Ok(Info { agc: agc.to_string(), samples, batches, contigs, segs, refkind, k })
    }

    fn counts(&self) -> Value {
        let lz: Vec<_> = self.refkind.iter().filter(|(g, _)| **g >= NO_RAW_GROUPS).collect();
        json!({
            "samples": self.samples.len(),
            "batches": self.batches.len(),
            "contigs": self.contigs.values().map(|v| v.len()).sum::<usize>(),
            "segments": self.segs.values().map(|m| m.values().map(|v| v.len()).sum::<usize>()).sum::<usize>(),
            "lz_groups": lz.len(),
            "raw_groups": self.refkind.keys().filter(|g| **g < NO_RAW_GROUPS).count(),
            "ref_parts_stored_raw": lz.iter().filter(|(_, k)| **k == "raw").count(),
            "ref_parts_zstd": lz.iter().filter(|(_, k)| **k == "zstd").count(),
            "lz_groups_without_ref_stream": lz.iter().filter(|(_, k)| **k == "none").count(),
            "k": self.k,
        })
    }

    fn batch_of(&self, s: &str) -> Option<usize> {
        self.samples.iter().position(|x| x == s).map(|i| i / PACK)
    }

    fn groups_of(&self, s: &str, c: &str) -> Vec<u32> {
        self.segs.get(s).and_then(|m| m.get(c)).map(|v| v.iter().map(|x| x.group_id).collect()).unwrap_or_default()
    }

    /// contribution of segment i to the contig: raw_length (i = 0) or raw_length - k
    fn contrib(&self, sd: &[SegmentDesc], i: usize) -> usize {
        let l = sd[i].raw_length as usize;
        if i == 0 {
            l
        } else {
            l.saturating_sub(self.k)
        }
    }

    fn contig_len(&self, s: &str, c: &str) -> usize {
        self.segs.get(s).and_then(|m| m.get(c)).map(|sd| (0..sd.len()).map(|i| self.contrib(sd, i)).sum()).unwrap_or(0)
    }

    fn header(&self) -> Map<String, Value> {
        let mut h = Map::new();
        h.insert("batches".into(), json!(self.batches));
        h.insert("contigs".into(), json!(self.contigs));
        let mut sg = Map::new();
        for (s, m) in &self.segs {
            let mut o = Map::new();
            for (c, sd) in m {
                o.insert(c.clone(), json!(sd.iter().map(|x| gname(x.group_id)).collect::<Vec<_>>()));
            }
            sg.insert(s.clone(), Value::Object(o));
        }
        h.insert("seggroups".into(), Value::Object(sg));
        let mut rk = Map::new();
        for (g, k) in &self.refkind {
            rk.insert(gname(*g), json!(k));
        }
        h.insert("refkind".into(), Value::Object(rk));
        h
    }
}

fn gname(g: u32) -> String {
    format!("g{}", g)
}

fn cmd_info(a: &Args) -> Result<()> {
    let info = Info::measure(a.get("agc")?)?;
    let mut h = info.header();
    h.insert("measured".into(), info.counts());
    println!("{}", Value::Object(h));
    Ok(())
}

// ------------------------------------------------------------------------------------------------
// concrete calls, execution, digests
// ------------------------------------------------------------------------------------------------
#[derive(Clone, Debug)]
struct COp {
    op: String,
    s: String,
    c: String,
    r: String, // range kind (abstract); a, b are the concrete positions
    a: usize,
    b: usize,
    g: u32,
    p: String,
}

impl COp {
    fn new(op: &str) -> COp {
        COp { op: op.to_string(), s: String::new(), c: String::new(), r: String::new(), a: 0, b: 0, g: 0, p: String::new() }
    }
    fn key(&self) -> String {
        match self.op.as_str() {
            "get_contig_range" => format!("{}|{}|{}|{}|{}", self.op, self.s, self.c, self.a, self.b),
            "get_reference_segment" => format!("{}|{}", self.op, self.g),
            "list_samples_with_prefix" | "get_samples_by_prefix" => format!("{}|{}", self.op, self.p),
            "list_contigs" | "get_sample" => format!("{}|{}", self.op, self.s),
            "get_contig" | "get_contig_length" | "get_contig_segments_desc" => format!("{}|{}|{}", self.op, self.s, self.c),
            _ => self.op.clone(),
        }
    }
    /// the operation record of the specification (Reader.tla: O(op, s, c, r, g, p))
    fn model(&self) -> Value {
        json!({"op": self.op, "s": self.s, "c": self.c, "r": self.r,
               "g": if self.op == "get_reference_segment" { gname(self.g) } else { String::new() }, "p": self.p})
    }
}

struct Ser(Vec<u8>);
impl Ser {
    fn n(&mut self, x: u64) {
        self.0.extend_from_slice(&x.to_le_bytes());
    }
    fn bytes(&mut self, b: &[u8]) {
        self.n(b.len() as u64);
        self.0.extend_from_slice(b);
    }
    fn descs(&mut self, sd: &[SegmentDesc]) {
        self.n(sd.len() as u64);
        for x in sd {
            self.n(x.group_id as u64);
            self.n(x.in_group_id as u64);
            self.n(x.is_rev_comp as u64);
            self.n(x.raw_length as u64);
        }
    }
    fn sample(&mut self, cs: &[(String, Vec<u8>)]) {
        self.n(cs.len() as u64);
        for (n, q) in cs {
            self.bytes(n.as_bytes());
            self.bytes(q);
        }
    }
    fn digest(self) -> String {
        util::sha256_hex(&self.0)[..16].to_string()
    }
}

#[derive(Clone, Debug, PartialEq)]
struct Res {
    cls: &'static str,
    dig: String,
    msg: String,
}

/// One call on a real handle. The answer is projected to (class, digest of a canonical serialisation); the text
/// of an error is incidental and not part of the projection.
fn exec(d: &mut Decompressor, o: &COp) -> Res {
    let r: std::result::Result<Result<String>, String> = util::catch(AssertUnwindSafe(|| -> Result<String> {
        let mut z = Ser(Vec::new());
        match o.op.as_str() {
            "list_samples" => {
                let v = d.list_samples();
                z.n(v.len() as u64);
                for s in &v {
                    z.bytes(s.as_bytes());
                }
            }
            "list_samples_with_prefix" => {
                let v = d.list_samples_with_prefix(&o.p);
                z.n(v.len() as u64);
                for s in &v {
                    z.bytes(s.as_bytes());
                }
            }
            "get_compression_stats" => {
                let v = d.get_compression_stats();
                z.n(v.len() as u64);
                for (n, a, b, c) in &v {
                    z.bytes(n.as_bytes());
                    z.n(*a);
                    z.n(*b);
                    z.n(*c as u64);
                }
            }
            "list_contigs" => {
                let v = d.list_contigs(&o.s)?;
                z.n(v.len() as u64);
                for s in &v {
                    z.bytes(s.as_bytes());
                }
            }
            "get_contig_length" => z.n(d.get_contig_length(&o.s, &o.c)? as u64),
            "get_contig_segments_desc" => z.descs(&d.get_contig_segments_desc(&o.s, &o.c)?),
            "get_contig" => z.bytes(&d.get_contig(&o.s, &o.c)?),
            "get_contig_range" => z.bytes(&d.get_contig_range(&o.s, &o.c, o.a, o.b)?),
            "get_sample" => z.sample(&d.get_sample(&o.s)?),
            "get_samples_by_prefix" => {
                let m = d.get_samples_by_prefix(&o.p)?;
                let m: BTreeMap<_, _> = m.into_iter().collect();
                z.n(m.len() as u64);
                for (n, cs) in &m {
                    z.bytes(n.as_bytes());
                    z.sample(cs);
                }
            }
            "get_all_segments" => {
                let v = d.get_all_segments()?;
                z.n(v.len() as u64);
                for (s, c, sd) in &v {
                    z.bytes(s.as_bytes());
                    z.bytes(c.as_bytes());
                    z.descs(sd);
                }
            }
            "get_group_statistics" => {
                let v = d.get_group_statistics()?;
                z.n(v.len() as u64);
                for (g, a, b, c) in &v {
                    z.n(*g as u64);
                    z.n(*a as u64);
                    z.n(*b as u64);
                    z.n(*c as u64);
                }
            }
            "get_reference_segment" => z.bytes(&d.get_reference_segment(o.g)?),
            other => bail!("harness: unknown op {}", other),
        }
        Ok(z.digest())
    }));
    match r {
        Ok(Ok(dig)) => Res { cls: "ok", dig, msg: String::new() },
        Ok(Err(e)) => Res { cls: "err", dig: "-".to_string(), msg: format!("{:#}", e) },
        Err(p) => Res { cls: "panic", dig: "-".to_string(), msg: p },
    }
}

fn exec_fresh(agc: &str, o: &COp) -> Result<Res> {
    let mut d = open(agc)?;
    Ok(exec(&mut d, o))
}

// ------------------------------------------------------------------------------------------------
// REPLAY
// ------------------------------------------------------------------------------------------------
/// Concrete names for the abstract arguments of MC_Reader (sA sB sX / cK cX / gRaw gZ gLow gUnk / pB pAll pNone /
/// head all empty beyond), chosen (seeded) so that the abstraction's facts hold in the real archive:
/// sA in batch 1 and sB in a later batch; contig cK of sA touches gRaw (reference stored raw) and gZ (reference
/// compressed); sA has a raw-group segment (gLow); pB matches sB only, pAll matches sA, sB and a few more (samples of
/// every batch), pNone nothing; "head" = a range inside one segment (of group gRaw for sA).
struct Binding {
    sa: String,
    sb: String,
    ck: BTreeMap<String, String>,
    graw: u32,
    gz: u32,
    glow: u32,
    gunk: u32,
    pall: String,
    sx: String,
    cx: String,
    pnone: String,
}

fn choose_binding(info: &Info, rng: &mut StdRng) -> Result<Binding> {
    let sx = "no_such_sample".to_string();
    let cx = "no_such_contig".to_string();
    let pnone = "zz_no_such".to_string();
    if info.samples.contains(&sx) || info.batches.len() < 2 {
        bail!("abstraction: archive needs >= 2 metadata batches");
    }
    // (sample, contig, raw-stored reference groups, compressed reference groups) candidates for sA
    let mut cand_a = vec![];
    for s in &info.batches[0] {
        let has_low = info.segs[s].values().any(|sd| sd.iter().any(|x| x.group_id < NO_RAW_GROUPS));
        if !has_low {
            continue;
        }
        for c in &info.contigs[s] {
            let sd = &info.segs[s][c];
            // the "head" range needs a gRaw segment that contributes at least one base
            let raws: Vec<u32> = (0..sd.len()).filter(|&i| info.refkind.get(&sd[i].group_id) == Some(&"raw") && info.contrib(sd, i) >= 1).map(|i| sd[i].group_id).collect();
            let zs: Vec<u32> = sd.iter().map(|x| x.group_id).filter(|g| info.refkind.get(g) == Some(&"zstd")).collect();
            if !raws.is_empty() && !zs.is_empty() {
                cand_a.push((s.clone(), c.clone(), raws, zs));
            }
        }
    }
    cand_a.shuffle(rng);
    for (sa, ca, raws, zs) in cand_a {
        // pAll: the longest proper prefix of sA's name that also matches a sample of a later batch (and few samples)
        let mut found = None;
        for plen in (1..sa.len()).rev() {
            let p = &sa[..plen];
            let m: Vec<&String> = info.samples.iter().filter(|s| s.starts_with(p)).collect();
            let later: Vec<&String> = m.iter().copied().filter(|s| info.batch_of(s).unwrap_or(0) >= 1).collect();
            if !later.is_empty() {
                if m.len() <= 12 {
                    found = Some((p.to_string(), (*later.choose(rng).unwrap()).clone()));
                }
                break;
            }
        }
        let (pall, sb) = match found {
            Some(x) => x,
            None => continue,
        };
        if info.samples.iter().filter(|s| s.starts_with(sb.as_str())).count() != 1 || info.contigs[&sb].is_empty() {
            continue;
        }
        let cb = info.contigs[&sb].choose(rng).unwrap().clone();
        if info.contig_len(&sb, &cb) < 1 {
            continue;
        }
        let graw = *raws.choose(rng).unwrap();
        let gz = *zs.choose(rng).unwrap();
        let lows: Vec<u32> = info.segs[&sa].values().flatten().map(|x| x.group_id).filter(|g| *g < NO_RAW_GROUPS).collect();
        let glow = *lows.choose(rng).unwrap();
        let gunk = info.refkind.keys().max().copied().unwrap_or(0) + 1000 + rng.gen_range(0..1000u32);
        let mut ck = BTreeMap::new();
        ck.insert(sa.clone(), ca.clone());
        ck.insert(sb.clone(), cb.clone());
        ck.insert(sx.clone(), ca.clone());
        return Ok(Binding { sa, sb, ck, graw, gz, glow, gunk, pall, sx, cx, pnone });
    }
    bail!("abstraction: no (sA, sB, cK, gRaw, gZ, pAll) with the required facts in this archive")
}

impl Binding {
    fn concrete(&self, info: &Info, m: &Value) -> Result<COp> {
        let f = |k: &str| m[k].as_str().unwrap_or("").to_string();
        let mut o = COp::new(&f("op"));
        let s_abs = f("s");
        let c_abs = f("c");
        o.s = match s_abs.as_str() {
            "sA" => self.sa.clone(),
            "sB" => self.sb.clone(),
            "sX" => self.sx.clone(),
            "" => String::new(),
            x => bail!("abstract sample {}", x),
        };
        o.c = match c_abs.as_str() {
            "cK" => self.ck[&o.s].clone(),
            "cX" => self.cx.clone(),
            "" => String::new(),
            x => bail!("abstract contig {}", x),
        };
        o.g = match f("g").as_str() {
            "gRaw" => self.graw,
            "gZ" => self.gz,
            "gLow" => self.glow,
            "gUnk" => self.gunk,
            "" => 0,
            x => bail!("abstract group {}", x),
        };
        o.p = match f("p").as_str() {
            "pB" => self.sb.clone(),
            "pAll" => self.pall.clone(),
            "pNone" => self.pnone.clone(),
            "" => String::new(),
            x => bail!("abstract prefix {}", x),
        };
        o.r = f("r");
        if o.op == "get_contig_range" {
            let known = info.segs.get(&o.s).map(|mm| mm.contains_key(&o.c)).unwrap_or(false);
            let len = info.contig_len(&o.s, &o.c);
            let (a, b) = match o.r.as_str() {
                // a range inside ONE segment of group gRaw (the abstraction's "first segment")
                "head" if known => {
                    let sd = &info.segs[&o.s][&o.c];
                    let i = (0..sd.len())
                        .find(|&i| sd[i].group_id == self.graw && info.contrib(sd, i) >= 1)
                        .or_else(|| (0..sd.len()).find(|&i| info.contrib(sd, i) >= 1))
                        .ok_or_else(|| anyhow!("no contributing segment"))?;
                    let off: usize = (0..i).map(|j| info.contrib(sd, j)).sum();
                    (off, off + info.contrib(sd, i).min(5))
                }
                "head" => (0, 5),
                "all" => (0, len + 7),
                "empty" => (7, 3),
                "beyond" => (len + 2, len + 9),
                x => bail!("abstract range {}", x),
            };
            o.a = a;
            o.b = b;
        }
        Ok(o)
    }
    fn json(&self) -> Value {
        json!({"sA": self.sa, "sB": self.sb, "sX": self.sx, "cK": self.ck, "cX": self.cx, "gRaw": self.graw, "gZ": self.gz,
               "gLow": self.glow, "gUnk": self.gunk, "pB": self.sb, "pAll": self.pall, "pNone": self.pnone})
    }
}

fn names_unknown(m: &Value) -> bool {
    let op = m["op"].as_str().unwrap_or("");
    let per_sample = ["list_contigs", "get_sample"].contains(&op);
    let per_contig = ["get_contig", "get_contig_range", "get_contig_length", "get_contig_segments_desc"].contains(&op);
    (per_sample || per_contig) && m["s"] == "sX" || per_contig && m["c"] == "cX"
}

const CLS: [&str; 3] = ["ok", "err", "panic"];

fn cmd_replay(a: &Args) -> Result<()> {
    util::install_panic_hook();
    let agc = a.get("agc")?.to_string();
    let info = Info::measure(&agc)?;
    let mut rng = util::rng(a.num("seed", 1u64));
    let bind = choose_binding(&info, &mut rng)?;
    let f = std::io::BufReader::new(std::fs::File::open(a.get("in")?)?);
    let mut lines = f.lines();
    let first: Value = serde_json::from_str(&lines.next().ok_or_else(|| anyhow!("empty replay file"))??)?;
    let alphabet: Vec<Value> = first["alphabet"].as_array().ok_or_else(|| anyhow!("first line must be {{\"alphabet\":[..]}}"))?.clone();
    let ops: Vec<COp> = alphabet.iter().map(|m| bind.concrete(&info, m)).collect::<Result<_>>()?;
    let is_clone: Vec<bool> = ops.iter().map(|o| o.op == "clone_for_thread").collect();
    // the fresh-handle table, computed once
    let mut fresh: Vec<Res> = vec![];
    for (i, o) in ops.iter().enumerate() {
        fresh.push(if is_clone[i] { Res { cls: "ok", dig: "clone".into(), msg: String::new() } } else { exec_fresh(&agc, o)? });
    }
    // behaviours: [[index(1-based), class code, flags], ...]
    let mut behs: Vec<Vec<(usize, usize, u64)>> = vec![];
    for l in lines {
        let l = l?;
        if l.trim().is_empty() {
            continue;
        }
        let v: Value = serde_json::from_str(&l)?;
        let b = v.as_array().ok_or_else(|| anyhow!("behaviour must be an array"))?
            .iter()
            .map(|st| (st[0].as_u64().unwrap() as usize - 1, st[1].as_u64().unwrap() as usize, st[2].as_u64().unwrap()))
            .collect();
        behs.push(b);
    }
    let mut fails: Vec<Value> = vec![];
    let mut abstraction: Vec<Value> = vec![];
    // the model's class on a fresh handle (first steps) against the real fresh class
    let mut model_fresh: Vec<Option<usize>> = vec![None; ops.len()];
    for b in &behs {
        if let Some(&(i, c, _)) = b.first() {
            model_fresh[i] = Some(c);
        }
    }
    for i in 0..ops.len() {
        let fr = &fresh[i];
        if fr.cls == "panic" {
            fails.push(json!({"kind": "panic", "where": "fresh handle", "op": ops[i].key(), "abstract": alphabet[i], "msg": fr.msg}));
        } else if let Some(c) = model_fresh[i] {
            if CLS[c] != fr.cls {
                let e = json!({"kind": "unknown_not_error", "where": "fresh handle", "op": ops[i].key(), "abstract": alphabet[i], "model": CLS[c], "got": fr.cls, "msg": fr.msg});
                if names_unknown(&alphabet[i]) {
                    fails.push(e);
                } else {
                    abstraction.push(e);
                }
            }
        }
    }
    let pool = rayon::ThreadPoolBuilder::new().num_threads(a.num("threads", 8usize)).build()?;
    let found: Vec<Value> = pool.install(|| {
        behs.par_iter()
            .enumerate()
            .filter_map(|(bi, b)| {
                let mut d = match open(&agc) {
                    Ok(d) => d,
                    Err(e) => return Some(json!({"kind": "open_failed", "beh": bi, "msg": format!("{:#}", e)})),
                };
                for (j, &(i, mc, flags)) in b.iter().enumerate() {
                    let seq = || b[..=j].iter().map(|x| ops[x.0].key()).collect::<Vec<_>>();
                    if is_clone[i] {
                        let r = util::catch(AssertUnwindSafe(|| d.clone_for_thread()));
                        match r {
                            Ok(Ok(d2)) => d = d2,
                            Ok(Err(e)) => return Some(json!({"kind": "class_vs_fresh", "beh": bi, "step": j, "seq": seq(), "op": "clone_for_thread", "got": "err", "fresh": "ok", "msg": format!("{:#}", e)})),
                            Err(p) => return Some(json!({"kind": "panic", "beh": bi, "step": j, "seq": seq(), "op": "clone_for_thread", "msg": p})),
                        }
                        continue;
                    }
                    let r = exec(&mut d, &ops[i]);
                    let fr = &fresh[i];
                    let kind = if r.cls == "panic" {
                        "panic"
                    } else if r.cls != fr.cls {
                        "class_vs_fresh"
                    } else if r.dig != fr.dig {
                        "digest_vs_fresh"
                    } else if r.cls != CLS[mc] {
                        "class_vs_model"
                    } else {
                        continue;
                    };
                    return Some(json!({"kind": kind, "beh": bi, "step": j, "seq": seq(), "op": ops[i].key(), "abstract": alphabet[i],
                        "got": {"cls": r.cls, "dig": r.dig}, "fresh": {"cls": fr.cls, "dig": fr.dig}, "model": CLS[mc], "flags": flags, "msg": r.msg}));
                }
                None
            })
            .collect()
    });
    let steps: usize = behs.iter().map(|b| b.len()).sum();
    let nfail_beh = found.len();
    // distinct failure shapes first (kind + failing op + length), capped
    let mut seen: BTreeSet<String> = BTreeSet::new();
    let mut sorted = found;
    sorted.sort_by_key(|f| (f["step"].as_u64().unwrap_or(0), f["beh"].as_u64().unwrap_or(0)));
    for f in sorted {
        let sig = format!("{}|{}|{}", f["kind"], f["op"], f["step"]);
        if seen.insert(sig) && fails.len() < 40 {
            fails.push(f);
        }
    }
    let mut table = Map::new();
    for (i, o) in ops.iter().enumerate() {
        table.insert(o.key(), json!({"cls": fresh[i].cls, "dig": fresh[i].dig}));
    }
    println!("{}", json!({"behaviours": behs.len(), "steps": steps, "fails": fails, "failed_behaviours": nfail_beh + 0,
        "abstraction": abstraction, "binding": bind.json(), "fresh": table, "measured": info.counts()}));
    Ok(())
}

// ------------------------------------------------------------------------------------------------
// TRACE
// ------------------------------------------------------------------------------------------------
/// The universe of concrete calls of one trace file (seeded): samples of every batch, all their contigs, unknown
/// names of several shapes, a contig of another sample, reference segments of LZ groups with raw / compressed
/// references, raw groups, unknown groups, prefixes, ranges of the four kinds with random positions.
fn universe(info: &Info, rng: &mut StdRng) -> (Vec<COp>, BTreeMap<String, Vec<String>>) {
    let mut ops: Vec<COp> = vec![];
    let mut samples: Vec<String> = vec![];
    for b in &info.batches {
        let mut v = b.clone();
        v.shuffle(rng);
        samples.extend(v.into_iter().take(3));
    }
    // samples that carry the added short / orphan contigs (raw groups)
    for s in &info.samples {
        if info.segs[s].values().flatten().any(|x| x.group_id < NO_RAW_GROUPS) && !samples.contains(s) && rng.gen_bool(0.4) {
            samples.push(s.clone());
        }
    }
    let first = info.samples[0].clone();
    let unknown_s = vec!["no_such_sample".to_string(), first[..first.len() - 1].to_string(), format!("{}x", info.samples[info.samples.len() - 1])];
    let unknown_s: Vec<String> = unknown_s.into_iter().filter(|s| !info.samples.contains(s) && !s.is_empty()).collect();
    for name in ["list_samples", "get_compression_stats", "get_all_segments", "get_group_statistics"] {
        ops.push(COp::new(name));
    }
    let mut all_s = samples.clone();
    all_s.extend(unknown_s.iter().cloned());
    let some_contig = info.contigs[&samples[0]][0].clone();
    for s in &all_s {
        for name in ["list_contigs", "get_sample"] {
            let mut o = COp::new(name);
            o.s = s.clone();
            ops.push(o);
        }
        let mut cs: Vec<String> = info.contigs.get(s).cloned().unwrap_or_else(|| vec![some_contig.clone()]);
        cs.push("no_such_contig".to_string());
        // a contig name that exists in the archive but not in this sample
        if let Some(other) = info.contigs.values().flatten().find(|c| !cs.contains(c)) {
            cs.push(other.clone());
        }
        for c in &cs {
            for name in ["get_contig", "get_contig_length", "get_contig_segments_desc"] {
                let mut o = COp::new(name);
                o.s = s.clone();
                o.c = c.clone();
                ops.push(o);
            }
            let known = info.segs.get(s).map(|m| m.contains_key(c)).unwrap_or(false);
            let len = info.contig_len(s, c);
            let first_len = if known && !info.segs[s][c].is_empty() { info.contrib(&info.segs[s][c], 0) } else { 0 };
            for kind in ["head", "all", "empty", "beyond"] {
                let (a, b) = match kind {
                    "head" => {
                        if known && first_len == 0 {
                            continue;
                        }
                        let fl = if known { first_len } else { 20 };
                        let b = rng.gen_range(1..=fl);
                        (rng.gen_range(0..b), b)
                    }
                    "all" => (0, len + [0usize, 1, 1000, usize::MAX - len][rng.gen_range(0..4)]),
                    "empty" => {
                        let a = rng.gen_range(0..len + 3);
                        (a, rng.gen_range(0..=a))
                    }
                    _ => {
                        let a = len + rng.gen_range(0..4usize);
                        (a, a + rng.gen_range(1..9usize))
                    }
                };
                let mut o = COp::new("get_contig_range");
                o.s = s.clone();
                o.c = c.clone();
                o.r = kind.to_string();
                o.a = a;
                o.b = b;
                ops.push(o);
            }
        }
    }
    // groups: those of the chosen samples' contigs (LZ with raw / compressed reference, raw groups) + unknown ones
    let mut gs: BTreeSet<u32> = BTreeSet::new();
    for s in &samples {
        for sd in info.segs[s].values() {
            for x in sd {
                if gs.len() < 24 || rng.gen_bool(0.1) {
                    gs.insert(x.group_id);
                }
            }
        }
    }
    for k in ["raw", "zstd", "none"] {
        if let Some((g, _)) = info.refkind.iter().find(|(_, kk)| **kk == k) {
            gs.insert(*g);
        }
    }
    let gmax = info.refkind.keys().max().copied().unwrap_or(16);
    for g in [gmax + 1, gmax + 5000, 0u32, 15, u32::MAX] {
        gs.insert(g);
    }
    for g in gs {
        let mut o = COp::new("get_reference_segment");
        o.g = g;
        ops.push(o);
    }
    // prefixes
    let mut pall = first.clone();
    for s in &info.samples {
        while !s.starts_with(&pall) {
            pall.pop();
        }
    }
    let last = info.samples[info.samples.len() - 1].clone();
    let mut ps: BTreeSet<String> = BTreeSet::new();
    for p in [pall.clone(), first.clone(), last.clone(), last[..last.len() - 1].to_string(), first[..first.len() - 1].to_string(), "zz_no_such".to_string(), format!("{}x", first)] {
        if !p.is_empty() {
            ps.insert(p);
        }
    }
    let mut prefixes = BTreeMap::new();
    for p in &ps {
        prefixes.insert(p.clone(), info.samples.iter().filter(|s| s.starts_with(p.as_str())).cloned().collect::<Vec<_>>());
        let n = prefixes[p].len();
        for name in ["list_samples_with_prefix", "get_samples_by_prefix"] {
            if name == "get_samples_by_prefix" && n > 12 && *p != pall {
                continue;
            }
            let mut o = COp::new(name);
            o.p = p.clone();
            ops.push(o);
        }
    }
    // one entry per key
    let mut seen = BTreeSet::new();
    ops.retain(|o| seen.insert(o.key()));
    (ops, prefixes)
}

fn cmd_trace(a: &Args) -> Result<()> {
    util::install_panic_hook();
    let agc = a.get("agc")?.to_string();
    let seed = a.num("seed", 1u64);
    let ncases = a.num("cases", 4usize);
    let nops = a.num("ops", 30usize);
    let tmax = a.num("threads-max", 8usize).clamp(2, 8);
    let info = Info::measure(&agc)?;
    let mut rng = util::rng(seed);
    let (ops, prefixes) = universe(&info, &mut rng);
    let ops = Arc::new(ops);
    // the stateless table: every call of the universe on its own fresh handle
    let mut table = Map::new();
    for o in ops.iter() {
        let r = exec_fresh(&agc, o)?;
        table.insert(o.key(), json!({"cls": r.cls, "dig": r.dig, "msg": r.msg}));
    }
    let mut out = std::io::BufWriter::new(std::fs::File::create(a.get("out")?)?);
    let mut hdr = info.header();
    hdr.insert("ev".into(), json!("hdr"));
    hdr.insert("agc".into(), json!(agc));
    hdr.insert("prefixes".into(), json!(prefixes));
    hdr.insert("table".into(), Value::Object(table));
    hdr.insert("measured".into(), info.counts());
    writeln!(out, "{}", Value::Object(hdr))?;
    // indices of calls that (re)load the catalogue / use the cache, to bias the random sequences towards the
    // histories that matter (a miss after a hit, a full-table call after a per-sample call, reference before/after a fill)
    let idx = |f: &dyn Fn(&COp) -> bool| -> Vec<usize> { (0..ops.len()).filter(|&i| f(&ops[i])).collect() };
    let misses = idx(&|o| !o.s.is_empty() && !info.samples.contains(&o.s));
    let tables = idx(&|o| o.op == "get_all_segments" || o.op == "get_group_statistics");
    let refs = idx(&|o| o.op == "get_reference_segment");
    let fills = idx(&|o| ["get_contig", "get_sample", "get_contig_range"].contains(&o.op.as_str()) && info.samples.contains(&o.s));
    for case in 0..ncases {
        let nthreads = 2 + (case + seed as usize) % (tmax - 1);
        writeln!(out, "{}", json!({"ev": "start", "case": case, "threads": nthreads}))?;
        let events: Arc<Mutex<Vec<Value>>> = Arc::new(Mutex::new(vec![]));
        let plan = |n: usize, rng: &mut StdRng| -> Vec<usize> {
            (0..n)
                .map(|_| {
                    let pools: [&Vec<usize>; 4] = [&misses, &tables, &refs, &fills];
                    let x: f64 = rng.gen();
                    if x < 0.45 {
                        let p = pools[rng.gen_range(0..4)];
                        if !p.is_empty() {
                            return p[rng.gen_range(0..p.len())];
                        }
                    }
                    rng.gen_range(0..ops.len())
                })
                .collect()
        };
        let run = |t: usize, d: &mut Decompressor, seq: &[usize], ops: &Vec<COp>, events: &Mutex<Vec<Value>>| {
            for &i in seq {
                let o = &ops[i];
                let r = exec(d, o);
                let e = json!({"ev": "op", "t": t, "op": o.model(), "key": o.key(), "cls": r.cls, "dig": r.dig, "msg": r.msg});
                events.lock().unwrap().push(e);
            }
        };
        // the parent handle (t = 0) has a history before it is cloned
        let mut parent = open(&agc)?;
        let pre = plan(rng.gen_range(0..6), &mut rng);
        run(0, &mut parent, &pre, &ops, &events);
        let mut clones = vec![];
        for t in 1..=nthreads {
            let c = util::catch(AssertUnwindSafe(|| parent.clone_for_thread()));
            match c {
                Ok(Ok(d)) => {
                    events.lock().unwrap().push(json!({"ev": "clone", "from": 0, "t": t, "cls": "ok"}));
                    clones.push((t, d));
                }
                Ok(Err(e)) => events.lock().unwrap().push(json!({"ev": "clone", "from": 0, "t": t, "cls": "err", "msg": format!("{:#}", e)})),
                Err(p) => events.lock().unwrap().push(json!({"ev": "clone", "from": 0, "t": t, "cls": "panic", "msg": p})),
            }
        }
        let barrier = Arc::new(Barrier::new(clones.len() + 1));
        let mut hs = vec![];
        for (t, mut d) in clones {
            let seq = plan(nops, &mut rng);
            let (ops, events, barrier) = (ops.clone(), events.clone(), barrier.clone());
            hs.push(std::thread::spawn(move || {
                util::install_panic_hook();
                barrier.wait();
                for &i in &seq {
                    let o = &ops[i];
                    let r = exec(&mut d, o);
                    let e = json!({"ev": "op", "t": t, "op": o.model(), "key": o.key(), "cls": r.cls, "dig": r.dig, "msg": r.msg});
                    events.lock().unwrap().push(e);
                }
            }));
        }
        // the parent keeps working concurrently with its clones
        let seq0 = plan(nops, &mut rng);
        barrier.wait();
        run(0, &mut parent, &seq0, &ops, &events);
        for h in hs {
            h.join().map_err(|_| anyhow!("reader thread died outside of a call"))?;
        }
        for e in events.lock().unwrap().iter() {
            writeln!(out, "{}", e)?;
        }
    }
    out.flush()?;
    println!("{}", json!({"cases": ncases, "universe": ops.len(), "measured": info.counts()}));
    Ok(())
}
