//! Binding of spec/Collection.tla (+ CollectionOps.tla) to ragc_common::CollectionV3,
//! ragc_common::Archive, ragc_core::Decompressor and StreamingQueueCompressor (property C03).
//!
//! Nothing here decides the property: the harness *drives* the real code, *projects*
//! (String <-> byte list, SegmentDesc <-> {g,id,rc,len}, stored parts -> byte lists) and, for
//! REPLAY, *compares* the model's post-state with the real one.  Name-delta decoding, descriptor
//! prediction, varints, batch/cursor arithmetic live in TLA+.
//!
//! sub-commands
//!   replay-collnames  --in F          behaviours of MC_CollNames  (codec wrappers)
//!   replay-colldesc   --in F          behaviours of MC_CollDesc   (codec wrappers)
//!   replay-collection --in F --dir D  behaviours of MC_Collection (real Archive files)
//!   trace-collcodec   --seed S --n N --out F [--big]      stateless codec events
//!   trace-collection  --seed S --plan P --dir D --out F   life-cycle cases (wrap/file/dec/pipe)
//!   bench-collection                  cost of one store_contig_batch (informational)
use crate::util::{self, Args};
use anyhow::{anyhow, Context, Result};
use ragc_common::{Archive, CollectionV3};
use ragc_core::{Decompressor, DecompressorConfig, StreamingQueueCompressor, StreamingQueueConfig};
use rand::rngs::StdRng;
use rand::seq::SliceRandom;
use rand::Rng;
use serde_json::{json, Value};
use std::collections::{HashMap, HashSet};
use std::io::{BufRead, Write};
use std::panic::AssertUnwindSafe;

pub fn dispatch(cmd: &str, a: &Args) -> Option<Result<()>> {
    match cmd {
        "replay-collnames" => Some(replay_names(a)),
        "replay-colldesc" => Some(replay_desc(a)),
        "replay-collection" => Some(replay_collection(a)),
        "trace-collcodec" => Some(trace_codec(a)),
        "trace-collection" => Some(trace_collection(a)),
        "bench-collection" => Some(bench(a)),
        _ => None,
    }
}

// ------------------------------------------------------------------------------------------
// projections
// ------------------------------------------------------------------------------------------
#[derive(Clone, Debug, PartialEq)]
struct Row {
    g: u32,
    id: u32,
    rc: bool,
    len: u32,
}
type Name = Vec<u8>;
type Table = Vec<Vec<Vec<Row>>>; // sample -> contig -> rows

fn jb(b: &[u8]) -> Value {
    Value::Array(b.iter().map(|&x| json!(x)).collect())
}
fn vb(v: &Value) -> Name {
    v.as_array().map(|a| a.iter().map(|x| x.as_u64().unwrap_or(0) as u8).collect()).unwrap_or_default()
}
fn jrow(r: &Row) -> Value {
    json!({"g": r.g, "id": r.id, "rc": if r.rc {1} else {0}, "len": r.len})
}
fn vrow(v: &Value) -> Row {
    Row { g: v["g"].as_u64().unwrap() as u32, id: v["id"].as_u64().unwrap() as u32, rc: v["rc"].as_u64().unwrap() != 0, len: v["len"].as_u64().unwrap() as u32 }
}
fn jrows(rs: &[Row]) -> Value {
    Value::Array(rs.iter().map(jrow).collect())
}
fn vrows(v: &Value) -> Vec<Row> {
    v.as_array().map(|a| a.iter().map(vrow).collect()).unwrap_or_default()
}
fn jlists(l: &[Vec<Name>]) -> Value {
    Value::Array(l.iter().map(|s| Value::Array(s.iter().map(|n| jb(n)).collect())).collect())
}
fn jtable(t: &Table) -> Value {
    Value::Array(t.iter().map(|s| Value::Array(s.iter().map(|c| jrows(c)).collect())).collect())
}
fn s(b: &[u8]) -> String {
    // names are ASCII in the whole C03 domain; the projection is the identity on bytes
    String::from_utf8(b.to_vec()).expect("harness generates ASCII names only")
}
/// (segment_size, k) with segment_size + k = pl
fn split_pl(pl: u32) -> (u32, u32) {
    let k = pl.min(21);
    (pl - k, k)
}
/// the reader's / writer's whole catalogue as the JSON image of the TLA+ value `rcat`
fn dump_cat(c: &CollectionV3) -> Value {
    let mut out = vec![];
    for name in c.get_samples_list(false) {
        let d = c.get_sample_desc(&name).unwrap_or_default();
        let contigs: Vec<Value> = d
            .iter()
            .map(|(cn, segs)| {
                json!({"name": jb(cn.as_bytes()), "segs": Value::Array(segs.iter().map(|x| jrow(&Row{g: x.group_id, id: x.in_group_id, rc: x.is_rev_comp, len: x.raw_length})).collect())})
            })
            .collect();
        out.push(json!({"name": jb(name.as_bytes()), "contigs": contigs}));
    }
    Value::Array(out)
}

/// `load` event: the reader's catalogue after the call as a difference to the one before it
/// (indices are 1-based; TLC checks changed entries AND that all others are unchanged)
fn load_event(b: usize, prev: &mut Value, now: Value) -> Value {
    let (pa, na) = (prev.as_array().cloned().unwrap_or_default(), now.as_array().cloned().unwrap_or_default());
    let changed: Vec<Value> = na
        .iter()
        .enumerate()
        .filter(|(i, v)| pa.get(*i) != Some(*v))
        .map(|(i, v)| json!({"i": i + 1, "sample": v}))
        .collect();
    let ev = json!({"ev": "load", "b": b, "n": na.len(), "changed": changed});
    *prev = now;
    ev
}

// ------------------------------------------------------------------------------------------
// codec wrappers (cfg ragc_verif pass-through to the private serialisers)
// ------------------------------------------------------------------------------------------
fn sample_key(i: usize) -> String {
    format!("s{}", i)
}
fn ser_names(lists: &[Vec<Name>]) -> Result<Vec<u8>> {
    let mut c = CollectionV3::new();
    for (i, l) in lists.iter().enumerate() {
        for n in l {
            if !c.register_sample_contig(&sample_key(i), &s(n))? {
                return Err(anyhow!("duplicate contig name in harness input"));
            }
        }
    }
    if c.get_no_samples() != lists.len() {
        return Err(anyhow!("sample without contigs cannot be registered"));
    }
    Ok(c.verif_serialize_contig_names(0, lists.len()))
}
fn de_names(buf: &[u8], nsamples: usize) -> Result<Vec<Vec<Name>>> {
    let mut c = CollectionV3::new();
    for i in 0..nsamples {
        c.register_sample_contig(&sample_key(i), "x")?;
    }
    c.verif_deserialize_contig_names(buf, 0)?;
    Ok((0..nsamples).map(|i| c.get_contig_list(&sample_key(i)).unwrap_or_default().into_iter().map(|x| x.into_bytes()).collect()).collect())
}
fn coll_with_shape(shape: &[usize], pl: u32) -> Result<CollectionV3> {
    let mut c = CollectionV3::new();
    let (seg, k) = split_pl(pl);
    c.set_config(seg, k, None);
    for (i, &nc) in shape.iter().enumerate() {
        for j in 0..nc {
            c.register_sample_contig(&sample_key(i), &format!("c{}", j))?;
        }
    }
    Ok(c)
}
fn ser_details(t: &Table, pl: u32) -> Result<[Vec<u8>; 5]> {
    let shape: Vec<usize> = t.iter().map(|x| x.len()).collect();
    if shape.iter().any(|&n| n == 0) {
        return Err(anyhow!("sample without contigs cannot be registered"));
    }
    let mut c = coll_with_shape(&shape, pl)?;
    for (i, sm) in t.iter().enumerate() {
        for (j, ct) in sm.iter().enumerate() {
            for (p, r) in ct.iter().enumerate() {
                c.add_segment_placed(&sample_key(i), &format!("c{}", j), p, r.g, r.id, r.rc, r.len)?;
            }
        }
    }
    Ok(c.verif_serialize_contig_details(0, t.len()))
}
fn de_details(streams: &[Vec<u8>; 5], shape: &[usize], pl: u32) -> Result<Table> {
    let mut c = coll_with_shape(shape, pl)?;
    c.verif_deserialize_contig_details(streams, 0)?;
    Ok((0..shape.len())
        .map(|i| {
            c.get_sample_desc(&sample_key(i))
                .unwrap_or_default()
                .into_iter()
                .map(|(_, segs)| segs.iter().map(|x| Row { g: x.group_id, id: x.in_group_id, rc: x.is_rev_comp, len: x.raw_length }).collect())
                .collect()
        })
        .collect())
}
fn ser_samples(names: &[Name]) -> Result<Vec<u8>> {
    let mut c = CollectionV3::new();
    for n in names {
        c.register_sample_contig(&s(n), "x")?;
    }
    Ok(c.verif_serialize_sample_names())
}
fn de_samples(buf: &[u8]) -> Result<Vec<Name>> {
    let mut c = CollectionV3::new();
    c.verif_deserialize_sample_names(buf)?;
    Ok(c.get_samples_list(false).into_iter().map(|x| x.into_bytes()).collect())
}
fn streams5(v: &Value) -> [Vec<u8>; 5] {
    let a = v.as_array().unwrap();
    [vb(&a[0]), vb(&a[1]), vb(&a[2]), vb(&a[3]), vb(&a[4])]
}
fn jstreams(st: &[Vec<u8>; 5]) -> Value {
    Value::Array(st.iter().map(|x| jb(x)).collect())
}
fn flat<T, E: std::fmt::Display>(r: std::result::Result<Result<T, E>, String>) -> std::result::Result<T, String> {
    match r {
        Ok(Ok(v)) => Ok(v),
        Ok(Err(e)) => Err(format!("error: {:#}", e)),
        Err(p) => Err(format!("panic: {}", p)),
    }
}

// ------------------------------------------------------------------------------------------
// REPLAY of MC_CollNames / MC_CollDesc behaviours
// ------------------------------------------------------------------------------------------
/// For every behaviour {names, enc, buf}: the real serialiser + the real deserialiser must give
/// back the list; the real deserialiser must read the model's canonical bytes; a difference
/// between the real and the model's bytes is NOT a verdict here: such cases are returned as
/// `deviations` and decided by TLC (spec decoder on the real bytes).
fn replay_names(a: &Args) -> Result<()> {
    util::install_panic_hook();
    let f = std::fs::File::open(a.get("in")?)?;
    let (mut n, mut steps, mut equal) = (0u64, 0u64, 0u64);
    let mut fails: Vec<Value> = vec![];
    let mut devs: Vec<Value> = vec![];
    for line in std::io::BufReader::new(f).lines() {
        let line = line?;
        if line.trim().is_empty() {
            continue;
        }
        let b: Value = serde_json::from_str(&line)?;
        let names: Vec<Name> = b["names"].as_array().unwrap().iter().map(vb).collect();
        let mbuf = vb(&b["buf"]);
        n += 1;
        steps += names.len() as u64;
        let lists = vec![names.clone()];
        let real = flat(util::catch(AssertUnwindSafe(|| ser_names(&lists))));
        let mut bad: Option<Value> = None;
        match &real {
            Err(e) => bad = Some(json!({"step": "serialize", "detail": e})),
            Ok(rb) => {
                match flat(util::catch(AssertUnwindSafe(|| de_names(rb, 1)))) {
                    Ok(d) if d == lists => {}
                    Ok(d) => bad = Some(json!({"step": "roundtrip", "real_buf": jb(rb), "real_dec": jlists(&d)})),
                    Err(e) => bad = Some(json!({"step": "roundtrip", "real_buf": jb(rb), "detail": e})),
                }
                if *rb == mbuf {
                    equal += 1;
                } else if devs.len() < 200 {
                    devs.push(json!({"ev": "names", "lists": jlists(&lists), "buf": jb(rb), "dec": jlists(&lists), "model_buf": jb(&mbuf)}));
                }
            }
        }
        if bad.is_none() {
            match flat(util::catch(AssertUnwindSafe(|| de_names(&mbuf, 1)))) {
                Ok(d) if d == lists => {}
                Ok(d) => bad = Some(json!({"step": "decode_model_bytes", "real_dec": jlists(&d)})),
                Err(e) => bad = Some(json!({"step": "decode_model_bytes", "detail": e})),
            }
        }
        if let Some(mut v) = bad {
            v["behaviour"] = b.clone();
            fails.push(v);
            if fails.len() >= 20 {
                break;
            }
        }
    }
    println!("{}", json!({"behaviours": n, "steps": steps, "bytes_equal": equal, "fails": fails, "deviations": devs}));
    Ok(())
}

fn table_from_shape(rows: &[Row], shape: &[u64]) -> Table {
    // shape = Counts(table): #samples, then per sample #contigs followed by its per-contig #rows
    let mut t: Table = vec![];
    let mut q = 1usize;
    let mut p = 0usize;
    for _ in 0..shape[0] {
        let nc = shape[q] as usize;
        q += 1;
        let mut sm = vec![];
        for _ in 0..nc {
            let nr = shape[q] as usize;
            q += 1;
            sm.push(rows[p..p + nr].to_vec());
            p += nr;
        }
        t.push(sm);
    }
    t
}

fn replay_desc(a: &Args) -> Result<()> {
    util::install_panic_hook();
    let f = std::fs::File::open(a.get("in")?)?;
    let (mut n, mut steps, mut equal) = (0u64, 0u64, 0u64);
    let mut fails: Vec<Value> = vec![];
    let mut devs: Vec<Value> = vec![];
    for line in std::io::BufReader::new(f).lines() {
        let line = line?;
        if line.trim().is_empty() {
            continue;
        }
        let b: Value = serde_json::from_str(&line)?;
        let pl = b["pl"].as_u64().unwrap() as u32;
        let rows = vrows(&b["rows"]);
        let shape: Vec<u64> = b["shape"].as_array().unwrap().iter().map(|x| x.as_u64().unwrap()).collect();
        let t = table_from_shape(&rows, &shape);
        let cshape: Vec<usize> = t.iter().map(|x| x.len()).collect();
        let mst = streams5(&b["streams"]);
        n += 1;
        steps += rows.len() as u64;
        let real = flat(util::catch(AssertUnwindSafe(|| ser_details(&t, pl))));
        let mut bad: Option<Value> = None;
        match &real {
            Err(e) => bad = Some(json!({"step": "serialize", "detail": e})),
            Ok(rs) => {
                match flat(util::catch(AssertUnwindSafe(|| de_details(rs, &cshape, pl)))) {
                    Ok(d) if d == t => {}
                    Ok(d) => bad = Some(json!({"step": "roundtrip", "real_streams": jstreams(rs), "real_dec": jtable(&d)})),
                    Err(e) => bad = Some(json!({"step": "roundtrip", "real_streams": jstreams(rs), "detail": e})),
                }
                if *rs == mst {
                    equal += 1;
                } else if devs.len() < 200 {
                    devs.push(json!({"ev": "details", "pl": pl, "table": jtable(&t), "streams": jstreams(rs), "dec": jtable(&t), "model_streams": jstreams(&mst)}));
                }
            }
        }
        if bad.is_none() {
            match flat(util::catch(AssertUnwindSafe(|| de_details(&mst, &cshape, pl)))) {
                Ok(d) if d == t => {}
                Ok(d) => bad = Some(json!({"step": "decode_model_bytes", "real_dec": jtable(&d)})),
                Err(e) => bad = Some(json!({"step": "decode_model_bytes", "detail": e})),
            }
        }
        if let Some(mut v) = bad {
            v["behaviour"] = b.clone();
            fails.push(v);
            if fails.len() >= 20 {
                break;
            }
        }
    }
    println!("{}", json!({"behaviours": n, "steps": steps, "bytes_equal": equal, "fails": fails, "deviations": devs}));
    Ok(())
}

// ------------------------------------------------------------------------------------------
// reading the stored parts back (projection: container + ZSTD are the identity of the model)
// ------------------------------------------------------------------------------------------
fn hv(b: &[u8], p: &mut usize) -> Result<usize> {
    // prefix varint of the part header (10 small integers); independent of ragc's decoder
    let f = *b.get(*p).ok_or_else(|| anyhow!("short details part"))? as usize;
    let k = if f < 128 { 1 } else if f < 192 { 2 } else if f < 224 { 3 } else if f < 240 { 4 } else { 5 };
    if *p + k > b.len() {
        return Err(anyhow!("short details part"));
    }
    let x = &b[*p..*p + k];
    *p += k;
    Ok(match k {
        1 => f,
        2 => ((f - 128) << 8) + x[1] as usize + 128,
        3 => ((f - 192) << 16) + ((x[1] as usize) << 8) + x[2] as usize + 16512,
        4 => ((f - 224) << 24) + ((x[1] as usize) << 16) + ((x[2] as usize) << 8) + x[3] as usize + 2113664,
        _ => ((x[1] as usize) << 24) + ((x[2] as usize) << 16) + ((x[3] as usize) << 8) + x[4] as usize + 270549120,
    })
}
struct Stored {
    samples: Vec<u8>,
    names: Vec<Vec<u8>>,
    det: Vec<[Vec<u8>; 5]>,
}
fn read_stored(path: &str) -> Result<Stored> {
    let mut ar = Archive::new_reader();
    ar.open(path)?;
    let sid = ar.get_stream_id("collection-samples").ok_or_else(|| anyhow!("no collection-samples"))?;
    let cid = ar.get_stream_id("collection-contigs").ok_or_else(|| anyhow!("no collection-contigs"))?;
    let did = ar.get_stream_id("collection-details").ok_or_else(|| anyhow!("no collection-details"))?;
    let (p, raw) = ar.get_part_by_id(sid, 0)?;
    let samples = zstd::decode_all(&p[..])?;
    if samples.len() as u64 != raw {
        return Err(anyhow!("collection-samples raw size mismatch"));
    }
    let mut names = vec![];
    let mut det = vec![];
    if ar.get_num_parts(cid) != ar.get_num_parts(did) {
        return Err(anyhow!("contig / details part counts differ"));
    }
    for b in 0..ar.get_num_parts(cid) {
        let (p, raw) = ar.get_part_by_id(cid, b)?;
        let n = zstd::decode_all(&p[..])?;
        if n.len() as u64 != raw {
            return Err(anyhow!("collection-contigs raw size mismatch"));
        }
        names.push(n);
        let (p, _) = ar.get_part_by_id(did, b)?;
        let mut pos = 0usize;
        let mut sizes = [(0usize, 0usize); 5];
        for i in 0..5 {
            sizes[i].0 = hv(&p, &mut pos)?;
            sizes[i].1 = hv(&p, &mut pos)?;
        }
        let mut st: [Vec<u8>; 5] = Default::default();
        for i in 0..5 {
            if pos + sizes[i].1 > p.len() {
                return Err(anyhow!("short details part"));
            }
            st[i] = zstd::decode_all(&p[pos..pos + sizes[i].1])?;
            pos += sizes[i].1;
            if st[i].len() != sizes[i].0 {
                return Err(anyhow!("details stream raw size mismatch"));
            }
        }
        det.push(st);
    }
    Ok(Stored { samples, names, det })
}

// ------------------------------------------------------------------------------------------
// life-cycle cases
// ------------------------------------------------------------------------------------------
#[derive(Clone)]
struct Case {
    id: String,
    mode: String, // wrap | file | dec | pipe
    pack: usize,
    pl: u32,
    regs: Vec<(Name, Name)>,            // register calls in order (duplicates allowed)
    rows: HashMap<(Name, Name), Vec<Row>>, // descriptor rows per (sample, contig)
    passes: usize,
    seed: u64,
}

fn ev_start(c: &Case) -> Value {
    json!({"ev": "start", "case": c.id, "mode": c.mode, "pack": c.pack, "pl": c.pl})
}

/// distinct (sample, contig) pairs in first-registration order -- only used to know which
/// contigs to place and which samples to query; the expected catalogue is computed by TLC.
fn distinct_pairs(c: &Case) -> Vec<(Name, Name)> {
    let mut seen = HashSet::new();
    let mut v = vec![];
    for p in &c.regs {
        if seen.insert(p.clone()) {
            v.push(p.clone());
        }
    }
    v
}

/// writer part on a real CollectionV3: register / place / wlist events
fn drive_writer(c: &Case, coll: &mut CollectionV3, rng: &mut StdRng, out: &mut Vec<Value>) -> Result<()> {
    let (seg, k) = split_pl(c.pl);
    coll.set_config(seg, k, None);
    for (sn, cn) in &c.regs {
        let new = coll.register_sample_contig(&s(sn), &s(cn))?;
        out.push(json!({"ev": "register", "s": jb(sn), "c": jb(cn), "new": new,
            "nsamples": coll.get_no_samples(), "ncontigs": coll.get_no_contigs(&s(sn)).unwrap_or(0)}));
    }
    let mut pairs = distinct_pairs(c);
    pairs.shuffle(rng);
    for (sn, cn) in pairs {
        let rows = c.rows.get(&(sn.clone(), cn.clone())).cloned().unwrap_or_default();
        let mut order: Vec<usize> = (0..rows.len()).collect();
        if rng.gen_bool(0.5) {
            order.shuffle(rng);
        }
        for &p in &order {
            let r = &rows[p];
            coll.add_segment_placed(&s(&sn), &s(&cn), p, r.g, r.id, r.rc, r.len)?;
        }
        out.push(json!({"ev": "place", "s": jb(&sn), "c": jb(&cn), "rows": jrows(&rows)}));
    }
    let samples = coll.get_samples_list(false);
    let contigs: Vec<Value> = samples
        .iter()
        .map(|n| Value::Array(coll.get_contig_list(n).unwrap_or_default().iter().map(|x| jb(x.as_bytes())).collect()))
        .collect();
    out.push(json!({"ev": "wlist", "samples": Value::Array(samples.iter().map(|x| jb(x.as_bytes())).collect()), "contigs": contigs}));
    Ok(())
}

fn push_store_events(st: &Stored, rows_known: bool, out: &mut Vec<Value>) {
    out.push(json!({"ev": "store_names", "bytes": jb(&st.samples)}));
    for b in 0..st.names.len() {
        out.push(json!({"ev": "store_batch", "b": b, "rows_known": rows_known, "names": jb(&st.names[b]), "det": jstreams(&st.det[b])}));
    }
}

/// finalize()'s metadata part on a real Archive file (agc_compressor.rs:2040-2093)
fn write_file(coll: &mut CollectionV3, path: &str, pack: usize, params: Option<(u32, u32)>) -> Result<()> {
    let mut ar = Archive::new_writer();
    ar.open(path)?;
    if let Some((k, seg)) = params {
        let sid = ar.register_stream("params");
        let mut p = vec![];
        for v in [k, 20u32, 50u32, seg] {
            p.extend_from_slice(&v.to_le_bytes());
        }
        ar.add_part_buffered(sid, p, 0);
    }
    coll.prepare_for_compression(&mut ar)?;
    coll.store_batch_sample_names(&mut ar)?;
    let n = coll.get_no_samples();
    let mut i = 0;
    while i < n {
        let e = (i + pack).min(n);
        coll.store_contig_batch(&mut ar, i, e)?;
        i = e;
    }
    ar.flush_buffers()?;
    ar.close()?;
    Ok(())
}

fn names_json(v: &[String]) -> Value {
    Value::Array(v.iter().map(|x| jb(x.as_bytes())).collect())
}

/// reader part through Collection::load_contig_batch on a real Archive (real cursor)
fn drive_reader_file(c: &Case, path: &str, out: &mut Vec<Value>) -> Result<()> {
    let mut ar = Archive::new_reader();
    ar.open(path)?;
    let mut coll = CollectionV3::new();
    let (seg, k) = split_pl(c.pl);
    coll.set_config(seg, k, None);
    coll.prepare_for_decompression(&ar)?;
    coll.load_batch_sample_names(&mut ar)?;
    let mut prev = dump_cat(&coll);
    out.push(json!({"ev": "open", "samples": names_json(&coll.get_samples_list(false)), "cat": prev}));
    let nb = coll.get_no_contig_batches(&ar)?;
    for _ in 0..c.passes {
        for b in 0..nb {
            coll.load_contig_batch(&mut ar, b)?;
            out.push(load_event(b, &mut prev, dump_cat(&coll)));
        }
    }
    Ok(())
}

/// reader part through the public Decompressor API (lazy loading inside)
fn drive_reader_dec(path: &str, rng: &mut StdRng, out: &mut Vec<Value>) -> Result<()> {
    let mut d = Decompressor::open(path, DecompressorConfig { verbosity: 0 })?;
    let samples = d.list_samples();
    out.push(json!({"ev": "open", "samples": names_json(&samples)}));
    let mut order: Vec<usize> = (0..samples.len()).collect();
    order.shuffle(rng);
    let all_at = if order.is_empty() { 0 } else { rng.gen_range(0..order.len()) };
    for (q, &i) in order.iter().enumerate() {
        if q == all_at {
            let segs = d.get_all_segments()?;
            let res: Vec<Value> = segs
                .iter()
                .map(|(sn, cn, sg)| {
                    json!({"s": jb(sn.as_bytes()), "c": jb(cn.as_bytes()),
                        "segs": Value::Array(sg.iter().map(|x| jrow(&Row{g: x.group_id, id: x.in_group_id, rc: x.is_rev_comp, len: x.raw_length})).collect())})
                })
                .collect();
            out.push(json!({"ev": "all_segments", "result": res}));
        }
        let r = d.list_contigs(&samples[i])?;
        out.push(json!({"ev": "list_contigs", "s": jb(samples[i].as_bytes()), "result": names_json(&r)}));
    }
    out.push(json!({"ev": "list_samples", "result": names_json(&d.list_samples())}));
    Ok(())
}

/// wrapper-level life cycle (no ZSTD, no file): the batch cursor is the harness's (Pack * b)
fn drive_wrap(c: &Case, coll: &mut CollectionV3, out: &mut Vec<Value>) -> Result<()> {
    let n = coll.get_no_samples();
    let mut st = Stored { samples: coll.verif_serialize_sample_names(), names: vec![], det: vec![] };
    let mut i = 0;
    while i < n {
        let e = (i + c.pack).min(n);
        st.names.push(coll.verif_serialize_contig_names(i, e));
        st.det.push(coll.verif_serialize_contig_details(i, e));
        i = e;
    }
    push_store_events(&st, true, out);
    let mut rd = CollectionV3::new();
    let (seg, k) = split_pl(c.pl);
    rd.set_config(seg, k, None);
    rd.verif_deserialize_sample_names(&st.samples)?;
    let mut prev = dump_cat(&rd);
    out.push(json!({"ev": "open", "samples": names_json(&rd.get_samples_list(false)), "cat": prev}));
    for _ in 0..c.passes {
        for b in 0..st.names.len() {
            rd.verif_deserialize_contig_names(&st.names[b], c.pack * b)?;
            rd.verif_deserialize_contig_details(&st.det[b], c.pack * b)?;
            out.push(load_event(b, &mut prev, dump_cat(&rd)));
        }
    }
    Ok(())
}

/// full pipeline: StreamingQueueCompressor::push / finalize, then the Decompressor
fn drive_pipe(c: &Case, path: &str, rng: &mut StdRng, out: &mut Vec<Value>) -> Result<()> {
    let (seg, k) = split_pl(c.pl);
    let cfg = StreamingQueueConfig {
        k: k as usize,
        segment_size: seg as usize,
        min_match_len: 8,
        num_threads: 2,
        verbosity: 0,
        queue_capacity: 64 << 20,
        ..StreamingQueueConfig::default()
    };
    let mut comp = StreamingQueueCompressor::new(path, cfg)?;
    // a common ancestor so that later samples delta-encode against the first
    let base: Vec<u8> = (0..(seg as usize * 3 + 40)).map(|_| rng.gen_range(0..4u8)).collect();
    for (sn, cn) in &c.regs {
        let mut d = base.clone();
        let l = rng.gen_range((k as usize + 2)..=d.len());
        d.truncate(l);
        for _ in 0..rng.gen_range(0..4) {
            let p = rng.gen_range(0..d.len());
            d[p] = rng.gen_range(0..4u8);
        }
        comp.push(s(sn), s(cn), d)?;
        out.push(json!({"ev": "push", "s": jb(sn), "c": jb(cn)}));
    }
    comp.finalize()?;
    let st = read_stored(path)?;
    push_store_events(&st, false, out);
    drive_reader_dec(path, rng, out)
}

fn run_case(c: &Case, dir: &str, out: &mut Vec<Value>) {
    out.push(ev_start(c));
    let path = format!("{}/{}_{}.agc", dir, c.id, std::process::id());
    let mut rng = util::rng(c.seed);
    let r = util::catch(AssertUnwindSafe(|| -> Result<()> {
        if c.mode == "pipe" {
            return drive_pipe(c, &path, &mut rng, out);
        }
        let mut coll = CollectionV3::new();
        drive_writer(c, &mut coll, &mut rng, out)?;
        match c.mode.as_str() {
            "wrap" => drive_wrap(c, &mut coll, out),
            "file" => {
                write_file(&mut coll, &path, c.pack, None)?;
                push_store_events(&read_stored(&path)?, true, out);
                drive_reader_file(c, &path, out)
            }
            "dec" => {
                let (seg, k) = split_pl(c.pl);
                write_file(&mut coll, &path, c.pack, Some((k, seg)))?;
                push_store_events(&read_stored(&path)?, true, out);
                drive_reader_dec(&path, &mut rng, out)
            }
            m => Err(anyhow!("unknown mode {}", m)),
        }
    }));
    match flat(r) {
        Ok(()) => {}
        // an error / panic of the code under test is data: no specification step matches it
        Err(e) => out.push(json!({"ev": "failure", "detail": e})),
    }
    let _ = std::fs::remove_file(&path);
}

// ------------------------------------------------------------------------------------------
// generators (seeded; C03 domain: printable ASCII + tab, no NUL, no byte >= 128; names
// distinct within a sample; ids / lengths / group ids < 2^31, group ids <= 100000)
// ------------------------------------------------------------------------------------------
fn rand_char(rng: &mut StdRng) -> u8 {
    if rng.gen_bool(0.02) {
        9
    } else {
        rng.gen_range(33..127u8)
    }
}
fn rand_field(rng: &mut StdRng, len: usize) -> Name {
    match rng.gen_range(0..10) {
        0 => vec![rand_char(rng); len],                                   // one long run
        1 => (0..len).map(|i| if i % 2 == 0 { b'A' } else { b'C' }).collect(),
        2 => format!("{}", rng.gen_range(0..10u64.pow((len.min(18)) as u32).max(1))).into_bytes(),
        _ => (0..len).map(|_| rand_char(rng)).collect(),
    }
}
const RUNLENS: [usize; 14] = [1, 2, 3, 7, 50, 99, 100, 101, 127, 128, 199, 200, 201, 300];
fn rand_len(rng: &mut StdRng) -> usize {
    match rng.gen_range(0..10) {
        0 => *RUNLENS.choose(rng).unwrap(),
        1 => rng.gen_range(100..330),
        2 => 0,
        _ => rng.gen_range(1..14),
    }
}
/// a new name derived from `prev`: keeps / alters / resizes / empties fields, sometimes changes the
/// field count -- every branch of the delta codec
fn mutate_name(rng: &mut StdRng, prev: &[u8]) -> Name {
    let mut fields: Vec<Name> = prev.split(|&b| b == b' ').map(|x| x.to_vec()).collect();
    for f in fields.iter_mut() {
        match rng.gen_range(0..12) {
            0..=4 => {}                                          // same field -> marker
            5..=7 if !f.is_empty() => {
                // same length, a few positions changed (runs in between; around 100 / 200 too)
                for _ in 0..rng.gen_range(1..4) {
                    let p = match rng.gen_range(0..4) {
                        0 => 0,
                        1 => f.len() - 1,
                        2 => [99usize, 100, 101, 199, 200, 201][rng.gen_range(0..6)].min(f.len() - 1),
                        _ => rng.gen_range(0..f.len()),
                    };
                    f[p] = rand_char(rng);
                }
            }
            8 => *f = vec![],                                     // empty field (double space)
            9 => {
                let l = f.len() + 1;
                *f = rand_field(rng, l);                          // length +1
            }
            10 => *f = rand_field(rng, f.len()),                  // same length, unrelated
            _ => {
                let l = rand_len(rng);
                *f = rand_field(rng, l);
            }
        }
    }
    match rng.gen_range(0..12) {
        0 => {
            let l = rand_len(rng);
            fields.push(rand_field(rng, l));
        }
        1 if fields.len() > 1 => {
            fields.pop();
        }
        2 => fields.insert(0, vec![]),                            // leading space
        _ => {}
    }
    fields.join(&b' ')
}
fn fresh_name(rng: &mut StdRng) -> Name {
    match rng.gen_range(0..6) {
        0 => format!("chr{} LN:{} AS:asm{} description text", rng.gen_range(1..23), rng.gen_range(1000..99999999u64), rng.gen_range(1..4)).into_bytes(),
        1 => format!("S{}#{}#chr{}", rng.gen_range(1..200), rng.gen_range(1..3), rng.gen_range(1..23)).into_bytes(),
        2 => {
            let l = rand_len(rng).max(1);
            rand_field(rng, l)
        }
        _ => {
            let nf = rng.gen_range(1..6);
            let fs: Vec<Name> = (0..nf).map(|_| { let l = rand_len(rng); rand_field(rng, l) }).collect();
            fs.join(&b' ')
        }
    }
}
/// n distinct non-empty names of one sample
fn gen_names(rng: &mut StdRng, n: usize) -> Vec<Name> {
    let mut v: Vec<Name> = vec![];
    let mut seen: HashSet<Name> = HashSet::new();
    let mut guard = 0;
    while v.len() < n {
        guard += 1;
        let cand = if v.is_empty() || rng.gen_bool(0.15) || guard > 50 * n { fresh_name(rng) } else { mutate_name(rng, v.last().unwrap()) };
        if cand.is_empty() || cand.len() > 2000 || seen.contains(&cand) {
            continue;
        }
        seen.insert(cand.clone());
        v.push(cand);
    }
    v
}
fn gen_sample_names(rng: &mut StdRng, n: usize) -> Vec<Name> {
    let mut v = vec![];
    let mut seen = HashSet::new();
    let style = rng.gen_range(0..3);
    while v.len() < n {
        let c: Name = match style {
            0 => format!("sample_{:03}", v.len() + rng.gen_range(0..3) * 1000).into_bytes(),
            1 => format!("HG{:05}#{}", rng.gen_range(0..99999), rng.gen_range(1..3)).into_bytes(),
            _ => {
                let l = rng.gen_range(1..40);
                let mut f: Name = (0..l).map(|_| rand_char(rng)).collect();
                if rng.gen_bool(0.3) {
                    let p = rng.gen_range(0..f.len());
                    f[p] = b' ';                                    // sample names may contain spaces
                }
                f
            }
        };
        if seen.insert(c.clone()) {
            v.push(c);
        }
    }
    v
}
struct RowGen {
    pl: u32,
    groups: Vec<u32>,
    maxid: HashMap<u32, u32>,
}
impl RowGen {
    fn new(rng: &mut StdRng, pl: u32) -> Self {
        let ng = rng.gen_range(1..12);
        let sparse = rng.gen_bool(0.3);
        let groups = (0..ng).map(|i| if sparse { rng.gen_range(0..100_000u32) } else { i as u32 + if rng.gen_bool(0.5) { 16 } else { 0 } }).collect();
        RowGen { pl, groups, maxid: HashMap::new() }
    }
    fn row(&mut self, rng: &mut StdRng) -> Row {
        let g = *self.groups.choose(rng).unwrap();
        let m = self.maxid.get(&g).copied();
        let id = match (m, rng.gen_range(0..12)) {
            (None, 0..=6) => 0,
            (None, 7..=8) => 1,
            (None, _) => rng.gen_range(0..50),
            (Some(m), 0..=5) => m + 1,                               // the common case
            (Some(m), 6) => m,                                       // repeats
            (Some(m), 7) => rng.gen_range(0..=m),                    // goes back
            (Some(_), 8) => 0,                                       // reference again
            (Some(m), 9) => m + rng.gen_range(2..40),                // jumps
            (Some(m), 10) => (m as u64 * 2 + rng.gen_range(0..3)) as u32,
            (Some(_), _) => rng.gen_range(0..3_000_000),
        };
        let id = id.min(400_000_000);
        let e = self.maxid.entry(g).or_insert(0);
        if id > *e {
            *e = id;
        }
        let pl = self.pl as i64;
        let len = match rng.gen_range(0..14) {
            0..=4 => pl + rng.gen_range(-30..30),
            5 => pl,
            6 => 2 * pl + rng.gen_range(-2..3),
            7 => rng.gen_range(0..3),
            8 => rng.gen_range(0..(pl.max(1))),
            9 => pl * rng.gen_range(2..50) + rng.gen_range(0..9),
            10 => rng.gen_range(0..400_000_000),
            _ => pl + rng.gen_range(-1000..1000),
        }
        .clamp(0, 400_000_000) as u32;
        Row { g, id, rc: rng.gen_bool(0.4), len }
    }
}
fn rand_pl(rng: &mut StdRng) -> u32 {
    *[0u32, 1, 10, 121, 1021, 60031, 60031, 10031].choose(rng).unwrap()
}

/// one catalogue: ns samples, each 1..maxc contigs, registered in an order that interleaves
/// samples now and then and repeats some registrations
fn gen_case(rng: &mut StdRng, id: &str, mode: &str, pack: usize, ns: usize, maxc: usize, maxrows: usize) -> Case {
    let pl = if mode == "pipe" { [31u32, 45, 60][rng.gen_range(0..3)] } else { rand_pl(rng) };
    let snames = gen_sample_names(rng, ns);
    let mut regs: Vec<(Name, Name)> = vec![];
    let mut rows = HashMap::new();
    let mut rg = RowGen::new(rng, pl);
    let mut pending: Vec<(Name, Name)> = vec![]; // contigs held back and registered later (interleaving)
    for sn in &snames {
        let nc = if rng.gen_bool(0.1) { maxc } else { rng.gen_range(1..=maxc.min(4).max(1)) };
        let names = gen_names(rng, nc);
        for (j, cn) in names.iter().enumerate() {
            if mode != "pipe" {
                let nr = match rng.gen_range(0..10) {
                    0 => 0,
                    1 => maxrows,
                    _ => rng.gen_range(1..=maxrows.min(6).max(1)),
                };
                rows.insert((sn.clone(), cn.clone()), (0..nr).map(|_| rg.row(rng)).collect::<Vec<Row>>());
            }
            if j > 0 && mode != "pipe" && rng.gen_bool(0.05) {
                pending.push((sn.clone(), cn.clone()));
            } else {
                regs.push((sn.clone(), cn.clone()));
                if mode != "pipe" && rng.gen_bool(0.05) {
                    regs.push((sn.clone(), cn.clone()));          // registered twice
                }
            }
        }
        if !pending.is_empty() && rng.gen_bool(0.5) {
            regs.append(&mut pending);
        }
    }
    regs.append(&mut pending);
    Case { id: id.to_string(), mode: mode.to_string(), pack, pl, regs, rows, passes: 2, seed: rng.gen() }
}

/// plan: comma-separated  mode:pack:nsamples:maxcontigs:maxrows
fn trace_collection(a: &Args) -> Result<()> {
    util::install_panic_hook();
    let seed: u64 = a.num("seed", 1u64);
    let dir = a.get("dir")?.to_string();
    std::fs::create_dir_all(&dir)?;
    let mut out = std::io::BufWriter::new(std::fs::File::create(a.get("out")?)?);
    let tag = a.opt("tag").unwrap_or("c").to_string();
    for (i, item) in a.get("plan")?.split(',').enumerate() {
        let p: Vec<&str> = item.split(':').collect();
        if p.len() != 5 {
            return Err(anyhow!("bad plan item {}", item));
        }
        let mut rng = util::rng(seed.wrapping_mul(0x9E3779B97F4A7C15).wrapping_add(i as u64 * 7919 + 13));
        let c = gen_case(&mut rng, &format!("{}{}_{}_{}", tag, i, p[0], p[2]), p[0], p[1].parse()?, p[2].parse()?, p[3].parse()?, p[4].parse()?);
        let mut evs = vec![];
        run_case(&c, &dir, &mut evs);
        for e in evs {
            writeln!(out, "{}", e)?;
        }
    }
    out.flush()?;
    Ok(())
}

/// stateless codec events: random / adversarial name lists, descriptor tables, sample lists
fn trace_codec(a: &Args) -> Result<()> {
    util::install_panic_hook();
    let seed: u64 = a.num("seed", 1u64);
    let n: usize = a.num("n", 50usize);
    let maxn: usize = a.num("maxnames", 12usize);
    let maxr: usize = a.num("maxrows", 60usize);
    let mut rng = util::rng(seed ^ 0xC03C03);
    let mut out = std::io::BufWriter::new(std::fs::File::create(a.get("out")?)?);
    writeln!(out, "{}", json!({"ev": "start", "case": "codec", "mode": "codec", "pack": a.num("pack", 50usize), "pl": 0}))?;
    for i in 0..n {
        // names: 1..3 samples
        let ns = rng.gen_range(1..4);
        let lists: Vec<Vec<Name>> = (0..ns).map(|_| { let k = rng.gen_range(1..=maxn); gen_names(&mut rng, k) }).collect();
        let ev = match flat(util::catch(AssertUnwindSafe(|| ser_names(&lists)))) {
            Ok(buf) => match flat(util::catch(AssertUnwindSafe(|| de_names(&buf, ns)))) {
                Ok(d) => json!({"ev": "names", "i": i, "lists": jlists(&lists), "buf": jb(&buf), "dec": jlists(&d)}),
                Err(e) => json!({"ev": "names", "i": i, "lists": jlists(&lists), "buf": jb(&buf), "dec": [], "failure": e}),
            },
            Err(e) => json!({"ev": "failure", "what": "serialize_contig_names", "lists": jlists(&lists), "detail": e}),
        };
        writeln!(out, "{}", ev)?;
        // details: 1..3 samples x 1..3 contigs
        let pl = rand_pl(&mut rng);
        let mut rg = RowGen::new(&mut rng, pl);
        let t: Table = (0..rng.gen_range(1..4))
            .map(|_| (0..rng.gen_range(1..4)).map(|_| { let k = if rng.gen_bool(0.1) { 0 } else { rng.gen_range(1..=maxr) }; (0..k).map(|_| rg.row(&mut rng)).collect() }).collect())
            .collect();
        let shape: Vec<usize> = t.iter().map(|x| x.len()).collect();
        let ev = match flat(util::catch(AssertUnwindSafe(|| ser_details(&t, pl)))) {
            Ok(st) => match flat(util::catch(AssertUnwindSafe(|| de_details(&st, &shape, pl)))) {
                Ok(d) => json!({"ev": "details", "i": i, "pl": pl, "table": jtable(&t), "streams": jstreams(&st), "dec": jtable(&d)}),
                Err(e) => json!({"ev": "details", "i": i, "pl": pl, "table": jtable(&t), "streams": jstreams(&st), "dec": [], "failure": e}),
            },
            Err(e) => json!({"ev": "failure", "what": "serialize_contig_details", "table": jtable(&t), "detail": e}),
        };
        writeln!(out, "{}", ev)?;
        // sample names
        if i % 4 == 0 {
            let k = [1usize, 2, 50, 127, 128, 129, 200][rng.gen_range(0..7)];
            let list = gen_sample_names(&mut rng, k);
            let ev = match flat(util::catch(AssertUnwindSafe(|| ser_samples(&list)))) {
                Ok(buf) => match flat(util::catch(AssertUnwindSafe(|| de_samples(&buf)))) {
                    Ok(d) => json!({"ev": "samples", "i": i, "list": Value::Array(list.iter().map(|x| jb(x)).collect()), "buf": jb(&buf), "dec": Value::Array(d.iter().map(|x| jb(x)).collect())}),
                    Err(e) => json!({"ev": "samples", "i": i, "list": Value::Array(list.iter().map(|x| jb(x)).collect()), "buf": jb(&buf), "dec": [], "failure": e}),
                },
                Err(e) => json!({"ev": "failure", "what": "serialize_sample_names", "detail": e}),
            };
            writeln!(out, "{}", ev)?;
        }
    }
    out.flush()?;
    Ok(())
}

// ------------------------------------------------------------------------------------------
// REPLAY of MC_Collection behaviours through real Archive files
// ------------------------------------------------------------------------------------------
fn replay_collection(a: &Args) -> Result<()> {
    util::install_panic_hook();
    let dir = a.get("dir")?.to_string();
    std::fs::create_dir_all(&dir)?;
    let f = std::fs::File::open(a.get("in")?)?;
    let (mut n, mut steps, mut equal) = (0u64, 0u64, 0u64);
    let mut fails: Vec<Value> = vec![];
    let mut devs: Vec<Value> = vec![];
    for line in std::io::BufReader::new(f).lines() {
        let line = line?;
        if line.trim().is_empty() {
            continue;
        }
        let b: Value = serde_json::from_str(&line)?;
        n += 1;
        let pack = b["pack"].as_u64().unwrap() as usize;
        let pl = b["pl"].as_u64().unwrap() as u32;
        let ops = b["ops"].as_array().unwrap().clone();
        let path = format!("{}/replay_{}_{}.agc", dir, std::process::id(), n);
        let mut bytes_equal = true;
        let mut trace: Vec<Value> = vec![json!({"ev": "start", "case": format!("replay{}", n), "mode": "file", "pack": pack, "pl": pl})];
        let res = util::catch(AssertUnwindSafe(|| -> Result<Option<Value>> {
            let mut w = CollectionV3::new();
            let (seg, k) = split_pl(pl);
            w.set_config(seg, k, None);
            let mut stored: Option<Stored> = None;
            let mut rd: Option<(Archive, CollectionV3)> = None;
            let mut prev_dump = json!([]);
            for (i, op) in ops.iter().enumerate() {
                steps += 1;
                match op["op"].as_str().unwrap() {
                    "register" => {
                        let (sn, cn) = (vb(&op["s"]), vb(&op["c"]));
                        let new = w.register_sample_contig(&s(&sn), &s(&cn))?;
                        let ns = w.get_no_samples();
                        trace.push(json!({"ev": "register", "s": jb(&sn), "c": jb(&cn), "new": new, "nsamples": ns, "ncontigs": w.get_no_contigs(&s(&sn)).unwrap_or(0)}));
                        if new != op["new"].as_bool().unwrap() || ns as u64 != op["nsamples"].as_u64().unwrap() {
                            return Ok(Some(json!({"step": i, "op": "register", "real": {"new": new, "nsamples": ns}})));
                        }
                    }
                    "place" => {
                        for sm in op["cat"].as_array().unwrap() {
                            for ct in sm["contigs"].as_array().unwrap() {
                                let rows = vrows(&ct["segs"]);
                                for (p, r) in rows.iter().enumerate().rev() {
                                    w.add_segment_placed(&s(&vb(&sm["name"])), &s(&vb(&ct["name"])), p, r.g, r.id, r.rc, r.len)?;
                                }
                                trace.push(json!({"ev": "place", "s": sm["name"], "c": ct["name"], "rows": ct["segs"]}));
                            }
                        }
                        let real = dump_cat(&w);
                        if real != op["cat"] {
                            return Ok(Some(json!({"step": i, "op": "place", "real": real})));
                        }
                    }
                    "store_names" => {
                        write_file(&mut w, &path, pack, None)?;
                        let st = read_stored(&path)?;
                        push_store_events(&st, true, &mut trace);
                        if st.samples != vb(&op["bytes"]) {
                            bytes_equal = false;
                        }
                        stored = Some(st);
                    }
                    "store_batch" => {
                        let st = stored.as_ref().ok_or_else(|| anyhow!("store_batch before store_names"))?;
                        let bi = op["b"].as_u64().unwrap() as usize;
                        if bi >= st.names.len() {
                            return Ok(Some(json!({"step": i, "op": "store_batch", "real": {"batches": st.names.len()}})));
                        }
                        if st.names[bi] != vb(&op["names"]) || st.det[bi] != streams5(&op["det"]) {
                            bytes_equal = false;
                        }
                    }
                    "open" => {
                        let st = stored.as_ref().ok_or_else(|| anyhow!("open before store"))?;
                        if st.names.len() != ops.iter().filter(|o| o["op"] == "store_batch").count() {
                            return Ok(Some(json!({"step": i, "op": "open", "real": {"batches": st.names.len()}})));
                        }
                        let mut ar = Archive::new_reader();
                        ar.open(&path)?;
                        let mut c = CollectionV3::new();
                        c.set_config(seg, k, None);
                        c.prepare_for_decompression(&ar)?;
                        c.load_batch_sample_names(&mut ar)?;
                        let real = names_json(&c.get_samples_list(false));
                        trace.push(json!({"ev": "open", "samples": real, "cat": dump_cat(&c)}));
                        prev_dump = dump_cat(&c);
                        if real != op["samples"] {
                            return Ok(Some(json!({"step": i, "op": "open", "real": real})));
                        }
                        rd = Some((ar, c));
                    }
                    "load" => {
                        let (ar, c) = rd.as_mut().ok_or_else(|| anyhow!("load before open"))?;
                        let bi = op["b"].as_u64().unwrap() as usize;
                        c.load_contig_batch(ar, bi)?;
                        let real = dump_cat(c);
                        trace.push(load_event(bi, &mut prev_dump, real.clone()));
                        if real != op["cat"] {
                            return Ok(Some(json!({"step": i, "op": "load", "b": bi, "real": real})));
                        }
                    }
                    o => return Err(anyhow!("unknown op {}", o)),
                }
            }
            Ok(None)
        }));
        let _ = std::fs::remove_file(&path);
        match flat(res) {
            Ok(None) => {}
            Ok(Some(mut v)) => {
                v["behaviour"] = b.clone();
                fails.push(v);
            }
            Err(e) => fails.push(json!({"step": "exception", "detail": e, "behaviour": b})),
        }
        if bytes_equal {
            equal += 1;
        } else if devs.len() < 50 {
            devs.push(Value::Array(trace));
        }
        if fails.len() >= 20 {
            break;
        }
    }
    println!("{}", json!({"behaviours": n, "steps": steps, "bytes_equal": equal, "fails": fails, "deviations": devs}));
    Ok(())
}

fn bench(_a: &Args) -> Result<()> {
    let mut rng = util::rng(1);
    let c = gen_case(&mut rng, "bench", "file", 50, 120, 3, 5);
    let mut evs = vec![];
    let t = std::time::Instant::now();
    run_case(&c, "/tmp", &mut evs);
    let bytes: usize = evs.iter().map(|e| e.to_string().len()).sum();
    println!("{}", json!({"samples": 120, "events": evs.len(), "json_bytes": bytes, "wall_ms": t.elapsed().as_millis() as u64,
        "failure": evs.iter().find(|e| e["ev"] == "failure")}));
    let _ = Context::context(Ok::<(), std::io::Error>(()), "");
    Ok(())
}
