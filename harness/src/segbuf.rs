//! Binding of spec/SegBuffer.tla to ragc_core::segment_buffer::BufferedSegments.
//! replay-segbuf: TLC-generated call sequences (exhaustive to a depth, or simulated random walks) are executed
//! on a real BufferedSegments; after every call the answer and the observers (get_no_parts, get_num_new,
//! is_empty_part for every group) are compared with the model's post-state.
use crate::util::{self, Args};
use ahash::AHashMap;
use anyhow::Result;
use ragc_core::segment_buffer::BufferedSegments;
use serde_json::{json, Value};
use std::io::BufRead;

pub fn dispatch(cmd: &str, a: &Args) -> Option<Result<()>> {
    match cmd {
        "replay-segbuf" => Some(replay(a)),
        _ => None,
    }
}

fn u(v: &Value, k: &str) -> u64 {
    v[k].as_u64().unwrap_or(0)
}

fn part_json(t: &(u64, u64, String, String, Vec<u8>, bool, u32)) -> Value {
    json!({"k1": t.0, "k2": t.1, "s": t.2[1..].parse::<u64>().unwrap_or(999), "c": t.3[1..].parse::<u64>().unwrap_or(999),
           "p": t.6, "d": t.4.first().copied().unwrap_or(255)})
}

fn norm(x: &Value) -> Value {
    json!({"k1": u(x, "k1"), "k2": u(x, "k2"), "s": u(x, "s"), "c": u(x, "c"), "p": u(x, "p"), "d": u(x, "d")})
}

fn replay(a: &Args) -> Result<()> {
    util::install_panic_hook();
    let f = std::fs::File::open(a.get("in")?)?;
    let (mut n, mut steps) = (0u64, 0u64);
    let mut fails: Vec<Value> = vec![];
    for line in std::io::BufReader::new(f).lines() {
        let line = line?;
        if line.trim().is_empty() {
            continue;
        }
        let b: Value = serde_json::from_str(&line)?;
        n += 1;
        let r = util::catch(|| {
            let mut buf = BufferedSegments::new(u(&b, "g0") as usize);
            for (i, st) in b["steps"].as_array().unwrap().iter().enumerate() {
                let op = st["op"].as_str().unwrap();
                let mut bad: Vec<String> = vec![];
                let x = &st["x"];
                match op {
                    "add_known" => buf.add_known(u(st, "g") as u32, u(x, "k1"), u(x, "k2"), format!("s{}", u(x, "s")), format!("c{}", u(x, "c")),
                                                 vec![u(x, "d") as u8], false, u(x, "p") as u32),
                    "add_new" => buf.add_new(u(x, "k1"), u(x, "k2"), format!("s{}", u(x, "s")), format!("c{}", u(x, "c")), vec![u(x, "d") as u8], false, u(x, "p") as u32),
                    "sort_known" => buf.sort_known(1),
                    "process_new" => {
                        let mut m: AHashMap<(u64, u64), u32> = AHashMap::new();
                        for e in st["global"].as_array().map(|v| v.as_slice()).unwrap_or(&[]) {
                            m.insert((u(e, "k1"), u(e, "k2")), u(e, "id") as u32);
                        }
                        let got = buf.process_new(&std::sync::Mutex::new(m));
                        if got as u64 != u(st, "ret") {
                            bad.push(format!("process_new returned {} (model: {})", got, st["ret"]));
                        }
                    }
                    "distribute" => buf.distribute_segments(u(st, "src") as u32, u(st, "from") as u32, u(st, "to") as u32),
                    "clear" => buf.clear(1),
                    "restart_read_vec" => buf.restart_read_vec(),
                    "get_vec_id" => {
                        let got = buf.get_vec_id();
                        if got as i64 != st["ret"].as_i64().unwrap() {
                            bad.push(format!("get_vec_id returned {} (model: {})", got, st["ret"]));
                        }
                    }
                    "get_part" => {
                        let g = st["g"].as_i64().unwrap() as i32;
                        let was_empty = buf.is_empty_part(g);
                        if was_empty != st["wasEmpty"].as_bool().unwrap() {
                            bad.push(format!("is_empty_part({}) = {} (model: {})", g, was_empty, st["wasEmpty"]));
                        }
                        let got = buf.get_part(g);
                        let want_some = st["some"].as_bool().unwrap();
                        match got {
                            None => {
                                if want_some {
                                    bad.push(format!("get_part({}) = None (model: {})", g, x));
                                }
                            }
                            Some(t) => {
                                if !want_some || part_json(&t) != norm(x) {
                                    bad.push(format!("get_part({}) = {} (model: some={} {})", g, part_json(&t), want_some, x));
                                }
                            }
                        }
                    }
                    _ => bad.push(format!("unknown op {}", op)),
                }
                let ng = buf.get_no_parts();
                let post = &st["post"];
                if ng as u64 != u(post, "ng") {
                    bad.push(format!("get_no_parts = {} (model: {})", ng, post["ng"]));
                }
                if buf.get_num_new() as u64 != u(post, "nnew") {
                    bad.push(format!("get_num_new = {} (model: {})", buf.get_num_new(), post["nnew"]));
                }
                let empt: Vec<bool> = (0..ng).map(|g| buf.is_empty_part(g as i32)).collect();
                let want: Vec<bool> = post["empty"].as_array().map(|v| v.iter().map(|b| b.as_bool().unwrap()).collect()).unwrap_or_default();
                if empt != want {
                    bad.push(format!("is_empty_part per group = {:?} (model: {:?})", empt, want));
                }
                if !bad.is_empty() {
                    return Some(json!({"step": i, "op": st, "diff": bad}));
                }
            }
            None
        });
        steps += b["steps"].as_array().unwrap().len() as u64;
        match r {
            Ok(None) => {}
            Ok(Some(mut v)) => {
                v["behaviour"] = b.clone();
                fails.push(v);
            }
            Err(p) => fails.push(json!({"panic": p, "behaviour": b})),
        }
        if fails.len() >= 20 {
            break;
        }
    }
    println!("{}", json!({"behaviours": n, "steps": steps, "fails": fails}));
    Ok(())
}
