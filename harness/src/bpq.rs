//! Binding of spec/BoundedPQ.tla to ragc_core::priority_queue::BoundedPriorityQueue (unmodified, no hooks).
//!
//! replay-bpq : TLC-generated sequences of non-blocking operations are executed on a real queue by one
//!              thread; after every step the answer and the observers (get_size, is_empty, is_completed)
//!              are compared with the model's post-state.
//! trace-bpq  : concurrent producers / consumers on a real queue; every call is bracketed by two numbers
//!              from ONE global atomic counter (before the call, after its return).  The log (sorted by
//!              that number) is validated by TLC against Trace_BoundedPQ.tla, which searches for a
//!              linearisation.  A run in which every unfinished thread sleeps in an untimed futex wait
//!              (read from /proc, never inferred from elapsed time alone) is logged as `stuck`.
use crate::util::{self, Args};
use anyhow::Result;
use rand::Rng;
use ragc_core::priority_queue::{BoundedPriorityQueue, PopResult};
use serde_json::{json, Value};
use std::io::{BufRead, Write};
use std::sync::atomic::{AtomicBool, AtomicI32, AtomicU64, Ordering};
use std::sync::{Arc, Mutex};
use std::time::{Duration, Instant};

pub fn dispatch(cmd: &str, a: &Args) -> Option<Result<()>> {
    match cmd {
        "replay-bpq" => Some(replay(a)),
        "trace-bpq" => Some(trace(a)),
        _ => None,
    }
}

fn obs(q: &BoundedPriorityQueue<u64>) -> Value {
    let (items, cost) = q.get_size();
    json!({"items": items, "cost": cost, "empty": q.is_empty(), "completed": q.is_completed()})
}

fn replay(a: &Args) -> Result<()> {
    util::install_panic_hook();
    let f = std::fs::File::open(a.get("in")?)?;
    let (mut n, mut steps) = (0u64, 0u64);
    let mut fails: Vec<Value> = vec![];
    for line in std::io::BufReader::new(f).lines() {
        let line = line?;
        if line.trim().is_empty() {
            continue;
        }
        let b: Value = serde_json::from_str(&line)?;
        n += 1;
        let r = util::catch(|| {
            let q: BoundedPriorityQueue<u64> =
                BoundedPriorityQueue::new(b["nprod"].as_u64().unwrap() as usize, b["cap"].as_u64().unwrap() as usize);
            for (i, st) in b["steps"].as_array().unwrap().iter().enumerate() {
                let op = st["op"].as_str().unwrap();
                let mut bad: Vec<String> = vec![];
                match op {
                    "emplace" => q.emplace(st["id"].as_u64().unwrap(), st["pr"].as_u64().unwrap() as usize, st["cost"].as_u64().unwrap() as usize),
                    "many" => q.emplace_many_no_cost(st["id"].as_u64().unwrap(), st["pr"].as_u64().unwrap() as usize, st["n"].as_u64().unwrap() as usize),
                    "mark" => q.mark_completed(),
                    "pop" => {
                        let (r, d) = q.pop_large();
                        let want = st["res"].as_str().unwrap();
                        let got = match r {
                            PopResult::Normal => "normal",
                            PopResult::Completed => "completed",
                            PopResult::Empty => "empty",
                        };
                        if got != want {
                            bad.push(format!("pop answered {} (model: {})", got, want));
                        } else if want == "normal" && d != st["rid"].as_u64() {
                            bad.push(format!("pop returned {:?} (model: {})", d, st["rid"]));
                        }
                    }
                    _ => bad.push(format!("unknown op {}", op)),
                }
                let o = obs(&q);
                if o != st["post"] {
                    bad.push(format!("observers {} (model: {})", o, st["post"]));
                }
                if !bad.is_empty() {
                    return Some(json!({"step": i, "op": st, "diff": bad}));
                }
            }
            None
        });
        steps += b["steps"].as_array().unwrap().len() as u64;
        match r {
            Ok(None) => {}
            Ok(Some(mut v)) => {
                v["behaviour"] = b.clone();
                fails.push(v);
            }
            Err(p) => fails.push(json!({"panic": p, "behaviour": b})),
        }
        if fails.len() >= 20 {
            break;
        }
    }
    println!("{}", json!({"behaviours": n, "steps": steps, "fails": fails}));
    Ok(())
}

// ---------------------------------------------------------------------------------------------
fn gettid() -> i32 {
    unsafe { libc::syscall(libc::SYS_gettid) as i32 }
}

fn futex_blocked(tid: i32) -> bool {
    let st = match std::fs::read_to_string(format!("/proc/self/task/{}/stat", tid)) {
        Ok(s) => s,
        Err(_) => return false,
    };
    let state = st.rsplit(')').next().unwrap_or("").trim_start().chars().next().unwrap_or('?');
    if state != 'S' {
        return false;
    }
    match std::fs::read_to_string(format!("/proc/self/task/{}/syscall", tid)) {
        Ok(s) => {
            let f: Vec<&str> = s.split_whitespace().collect();
            f.len() >= 5 && f[0] == format!("{}", libc::SYS_futex) && f[4] == "0x0"
        }
        Err(_) => false,
    }
}

#[derive(Clone)]
enum Op {
    Emplace(u64, usize, usize),
    Many(u64, usize, usize),
    Mark,
}

struct Shared {
    seq: AtomicU64,
    log: Mutex<Vec<(u64, Value)>>,
}

fn stamp(s: &Shared) -> u64 {
    s.seq.fetch_add(1, Ordering::SeqCst)
}

fn trace(a: &Args) -> Result<()> {
    util::install_panic_hook();
    let cases: u64 = a.num("cases", 50u64);
    let seed: u64 = a.num("seed", 1u64);
    let maxitems: usize = a.num("items", 8usize);
    let mut out = std::io::BufWriter::new(std::fs::File::create(a.get("out")?)?);
    let mut rng = util::rng(seed.wrapping_mul(7919).wrapping_add(13));
    let mut summary = vec![];
    for case in 0..cases {
        let np = rng.gen_range(1..=3usize);
        let nc = rng.gen_range(1..=4usize);
        let cap = *[1usize, 1, 2, 3, 5, 10, 1000].get(rng.gen_range(0..7)).unwrap();
        let mut next_id = 1u64;
        let mut scripts: Vec<Vec<Op>> = vec![];
        for _ in 0..np {
            let n = rng.gen_range(0..=maxitems);
            let mut v = vec![];
            for _ in 0..n {
                let id = next_id;
                next_id += 1;
                if rng.gen_range(0..6) == 0 {
                    v.push(Op::Many(id, rng.gen_range(0..4), rng.gen_range(1..=3)));
                } else {
                    v.push(Op::Emplace(id, rng.gen_range(0..4), rng.gen_range(0..=4)));
                }
            }
            v.push(Op::Mark);
            scripts.push(v);
        }
        let q: BoundedPriorityQueue<u64> = BoundedPriorityQueue::new(np, cap);
        let sh = Arc::new(Shared { seq: AtomicU64::new(1), log: Mutex::new(vec![]) });
        let nthreads = np + nc;
        let tids: Arc<Vec<AtomicI32>> = Arc::new((0..nthreads).map(|_| AtomicI32::new(0)).collect());
        let done: Arc<Vec<AtomicBool>> = Arc::new((0..nthreads).map(|_| AtomicBool::new(false)).collect());
        let yield_seed = rng.gen::<u64>();
        let gate = Arc::new(std::sync::Barrier::new(nthreads));
        let mut handles = vec![];
        for t in 0..nthreads {
            let q = q.clone();
            let sh = sh.clone();
            let tids = tids.clone();
            let done = done.clone();
            let gate = gate.clone();
            let script = if t < np { Some(scripts[t].clone()) } else { None };
            handles.push(std::thread::spawn(move || {
                tids[t].store(gettid(), Ordering::SeqCst);
                let sh2 = sh.clone();
                let done2 = done.clone();
                gate.wait();
                let body = std::panic::AssertUnwindSafe(move || {
                let mut r = util::rng(yield_seed ^ (t as u64 * 0x9E3779B97F4A7C15));
                let tn = t + 1;
                let pause = |r: &mut rand::rngs::StdRng| match r.gen_range(0..8) {
                    0 => std::thread::yield_now(),
                    1 => std::thread::sleep(Duration::from_micros(r.gen_range(1..200))),
                    _ => {}
                };
                match script {
                    Some(ops) => {
                        for op in ops {
                            pause(&mut r);
                            let s0 = stamp(&sh);
                            let mut rec = match &op {
                                Op::Emplace(id, pr, cost) => json!({"ev": "call", "t": tn, "op": "emplace", "id": id, "pr": pr, "cost": cost}),
                                Op::Many(id, pr, n) => json!({"ev": "call", "t": tn, "op": "many", "id": id, "pr": pr, "n": n}),
                                Op::Mark => json!({"ev": "call", "t": tn, "op": "mark"}),
                            };
                            rec["res"] = json!("blocked");
                            let idx = {
                                let mut l = sh.log.lock().unwrap();
                                l.push((s0, rec));
                                l.len() - 1
                            };
                            match op {
                                Op::Emplace(id, pr, cost) => q.emplace(id, pr, cost),
                                Op::Many(id, pr, n) => q.emplace_many_no_cost(id, pr, n),
                                Op::Mark => q.mark_completed(),
                            }
                            let s1 = stamp(&sh);
                            let mut l = sh.log.lock().unwrap();
                            l[idx].1["res"] = json!("unit");
                            l.push((s1, json!({"ev": "ret", "t": tn})));
                        }
                    }
                    None => loop {
                        pause(&mut r);
                        let s0 = stamp(&sh);
                        let idx = {
                            let mut l = sh.log.lock().unwrap();
                            l.push((s0, json!({"ev": "call", "t": tn, "op": "pop", "res": "blocked"})));
                            l.len() - 1
                        };
                        let (res, d) = q.pop_large();
                        let s1 = stamp(&sh);
                        let mut l = sh.log.lock().unwrap();
                        let fin = match res {
                            PopResult::Normal => {
                                l[idx].1["res"] = json!("normal");
                                l[idx].1["rid"] = json!(d);
                                false
                            }
                            PopResult::Completed => {
                                l[idx].1["res"] = json!("completed");
                                true
                            }
                            PopResult::Empty => {
                                l[idx].1["res"] = json!("empty");
                                true
                            }
                        };
                        l.push((s1, json!({"ev": "ret", "t": tn})));
                        if fin {
                            break;
                        }
                    },
                }
                });
                if let Err(p) = util::catch(body) {
                    let s1 = stamp(&sh2);
                    sh2.log.lock().unwrap_or_else(|e| e.into_inner()).push((s1, json!({"ev": "panic", "t": t + 1, "msg": p})));
                }
                done2[t].store(true, Ordering::SeqCst);
            }));
        }
        // wait: finished, or provably nothing can move (every unfinished thread asleep in an untimed futex wait,
        // observed on 5 consecutive polls with the counter unchanged)
        let t0 = Instant::now();
        let mut still = 0;
        let mut last_seq = 0u64;
        let mut stuck: Option<Vec<usize>> = None;
        loop {
            if done.iter().all(|d| d.load(Ordering::SeqCst)) {
                break;
            }
            std::thread::sleep(Duration::from_millis(4));
            let cur = sh.seq.load(Ordering::SeqCst);
            let blocked: Vec<usize> = (0..nthreads).filter(|&t| !done[t].load(Ordering::SeqCst)).collect();
            let all_asleep = blocked.iter().all(|&t| {
                let tid = tids[t].load(Ordering::SeqCst);
                tid != 0 && futex_blocked(tid)
            });
            if all_asleep && cur == last_seq && !blocked.is_empty() {
                still += 1;
                if still >= 5 && !done.iter().all(|d| d.load(Ordering::SeqCst)) {
                    stuck = Some(blocked.iter().map(|t| t + 1).collect());
                    break;
                }
            } else {
                still = 0;
            }
            last_seq = cur;
            if t0.elapsed() > Duration::from_secs(120) {
                anyhow::bail!("trace-bpq case {}: neither finished nor quiescent after 120 s (tool problem, no verdict)", case);
            }
        }
        let mut log = sh.log.lock().unwrap().clone();
        log.sort_by_key(|(s, _)| *s);
        writeln!(out, "{}", json!({"ev": "start", "case": case, "cap": cap, "nprod": np, "threads": nthreads, "ncons": nc}))?;
        for (_, v) in &log {
            writeln!(out, "{}", v)?;
        }
        match &stuck {
            Some(b) => {
                writeln!(out, "{}", json!({"ev": "stuck", "blocked": b}))?;
                // the sleeping threads are abandoned together with their queue
                for h in handles {
                    std::mem::forget(h);
                }
            }
            None => {
                for h in handles {
                    let _ = h.join();
                }
                let (items, cost) = q.get_size();
                writeln!(out, "{}", json!({"ev": "end", "items": items, "cost": cost, "empty": q.is_empty() as u8, "completed": q.is_completed() as u8}))?;
            }
        }
        summary.push(json!({"case": case, "np": np, "nc": nc, "cap": cap, "events": log.len(), "stuck": stuck.is_some()}));
    }
    out.flush()?;
    println!("{}", json!({"cases": cases, "summary": summary}));
    Ok(())
}
