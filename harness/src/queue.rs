//! Binding of spec/Queue.tla + spec/QueueAbs.tla to ragc_core::memory_bounded_queue (C06).
//!
//! Nothing here decides the property.  The module
//!  * drives the real `MemoryBoundedQueue` from harness threads (`steer-queue`: one call at a
//!    time in the order of a TLC-generated behaviour; `trace-queue`: free-running producers /
//!    consumers with seeded perturbation inside the critical sections),
//!  * projects: the cfg(ragc_verif) hook events (emitted under the queue mutex, so log order =
//!    lock order) plus what every call returned to its caller are written as ndjson for
//!    `Trace_Queue.tla`,
//!  * compares, for deterministic behaviours, the model's projected post-state (answer class,
//!    who is blocked, bag of queued items, bytes, closed) with the real one after every
//!    settled step (REPLAY).
//!
//! "Settled / quiescent" is never inferred from elapsed time: a thread counts as blocked only
//! if the kernel reports it sleeping (state S) inside an untimed futex wait and neither the
//! event counter nor the result channel moved during two consecutive scans of all threads.
use crate::util::{self, Args};
use anyhow::{anyhow, bail, Result};
use ragc_common::verif;
use ragc_core::memory_bounded_queue::{MemoryBoundedQueue, PushError, TryPushError};
use rand::rngs::StdRng;
use rand::{Rng, SeedableRng};
use serde_json::{json, Value};
use std::cell::{Cell, RefCell};
use std::collections::{BTreeMap, BTreeSet, HashMap};
use std::io::{BufRead, Write};
use std::sync::atomic::{AtomicU32, AtomicU64, Ordering};
use std::sync::mpsc::{channel, Receiver, Sender};
use std::sync::{Arc, Mutex};
use std::time::{Duration, Instant};

pub fn dispatch(cmd: &str, a: &Args) -> Option<Result<()>> {
    match cmd {
        "steer-queue" => Some(steer(a)),
        "trace-queue" => Some(stress(a)),
        _ => None,
    }
}

// ---------------------------------------------------------------------------------------------
// the item type: ordered by priority only (equal priority = tie), named by uid
// ---------------------------------------------------------------------------------------------
#[derive(Debug)]
struct Item {
    pr: u32,
    uid: u64,
}
impl PartialEq for Item {
    fn eq(&self, o: &Self) -> bool {
        self.pr == o.pr
    }
}
impl Eq for Item {}
impl PartialOrd for Item {
    fn partial_cmp(&self, o: &Self) -> Option<std::cmp::Ordering> {
        Some(self.cmp(o))
    }
}
impl Ord for Item {
    fn cmp(&self, o: &Self) -> std::cmp::Ordering {
        self.pr.cmp(&o.pr)
    }
}
type Q = MemoryBoundedQueue<Item>;

// ---------------------------------------------------------------------------------------------
// event log (sink of the ragc_verif hooks)
// ---------------------------------------------------------------------------------------------
static LOG: Mutex<Vec<Value>> = Mutex::new(Vec::new());
static EVCOUNT: AtomicU64 = AtomicU64::new(0);
static CASE: AtomicU64 = AtomicU64::new(0);
static PERTURB: AtomicU32 = AtomicU32::new(0); // per-mille probability of a delay inside the sink

thread_local! {
    static ME: Cell<(u64, i64)> = const { Cell::new((0, -1)) };      // (case generation, thread index)
    static CUR: Cell<(u64, u32)> = const { Cell::new((0, 0)) };      // item of the push in progress
    static PRNG: RefCell<Option<StdRng>> = const { RefCell::new(None) };
}

fn perturb() {
    let p = PERTURB.load(Ordering::Relaxed);
    if p == 0 {
        return;
    }
    let r = PRNG.with(|g| g.borrow_mut().as_mut().map(|g| (g.gen_range(0..1000u32), g.gen_range(1..80u64))));
    if let Some((r, us)) = r {
        if r < p {
            if r % 3 == 0 {
                std::thread::sleep(Duration::from_micros(us));
            } else {
                std::thread::yield_now();
            }
        }
    }
}

fn log_push(v: Value) {
    LOG.lock().unwrap().push(v);
    EVCOUNT.fetch_add(1, Ordering::SeqCst);
}

fn install_sink() {
    verif::install(Some(Arc::new(|e: verif::Event| {
        let (gen, idx) = ME.with(|m| m.get());
        if idx < 0 || gen != CASE.load(Ordering::SeqCst) {
            return; // not a thread of the case under observation
        }
        let get = |k: &str| e.nums.iter().find(|(n, _)| *n == k).map(|(_, v)| *v).unwrap_or(-1);
        let mut v = json!({"ev": e.kind, "t": idx, "seq": e.seq, "size": get("size"), "cur": get("cur"),
                           "len": get("len"), "closed": get("closed"), "qcap": get("cap"), "q": get("q")});
        match e.kind {
            "admit" => {
                let (uid, pr) = CUR.with(|c| c.get());
                v["ticket"] = json!(get("ticket"));
                v["uid"] = json!(uid);
                v["pr"] = json!(pr);
            }
            "take" => {
                v["ticket"] = json!(get("ticket"));
            }
            _ => {}
        }
        log_push(v);
        perturb(); // still inside the critical section of the queue
    })));
}

fn take_log() -> Vec<Value> {
    std::mem::take(&mut *LOG.lock().unwrap())
}

// ---------------------------------------------------------------------------------------------
// calls on the real queue; panics are data
// ---------------------------------------------------------------------------------------------
#[derive(Clone)]
enum Cmd {
    Push { uid: u64, sz: usize, pr: u32 },
    TryPush { uid: u64, sz: usize, pr: u32 },
    Pull,
    TryPull,
    Close,
    /// (gated workers only) start working on another queue / case
    Reset(Q, u64),
}
impl Cmd {
    fn name(&self) -> &'static str {
        match self {
            Cmd::Push { .. } => "push",
            Cmd::TryPush { .. } => "try_push",
            Cmd::Pull => "pull",
            Cmd::TryPull => "try_pull",
            Cmd::Close => "close",
            Cmd::Reset(..) => "reset",
        }
    }
}

/// Executes one call; returns (answer class, uid of the returned item) and logs the `ret` event.
fn exec(q: &Q, idx: i64, cmd: &Cmd) -> (&'static str, u64) {
    let r = util::catch(std::panic::AssertUnwindSafe(|| match cmd {
        Cmd::Push { uid, sz, pr } => {
            CUR.with(|c| c.set((*uid, *pr)));
            match q.push(Item { pr: *pr, uid: *uid }, *sz) {
                Ok(()) => ("ok", 0),
                Err(PushError::Closed) => ("closed", 0),
            }
        }
        Cmd::TryPush { uid, sz, pr } => {
            CUR.with(|c| c.set((*uid, *pr)));
            match q.try_push(Item { pr: *pr, uid: *uid }, *sz) {
                Ok(()) => ("ok", 0),
                Err(TryPushError::Closed) => ("closed", 0),
                Err(TryPushError::WouldBlock) => ("wouldblock", 0),
            }
        }
        Cmd::Pull => match q.pull() {
            Some(it) => ("item", it.uid),
            None => ("none", 0),
        },
        Cmd::TryPull => match q.try_pull() {
            Some(it) => ("item", it.uid),
            None => ("none", 0),
        },
        Cmd::Close => {
            q.close();
            ("unit", 0)
        }
        Cmd::Reset(..) => ("unit", 0),
    }));
    let (cls, uid, msg) = match r {
        Ok((c, u)) => (c, u, None),
        Err(m) => ("panic", 0, Some(m)),
    };
    let mut v = json!({"ev": "ret", "t": idx, "op": cmd.name(), "cls": cls, "uid": uid});
    if let Some(m) = msg {
        v["msg"] = json!(m);
    }
    log_push(v);
    (cls, uid)
}

// ---------------------------------------------------------------------------------------------
// kernel-level "is this thread asleep in an untimed futex wait"
// ---------------------------------------------------------------------------------------------
fn gettid() -> i32 {
    unsafe { libc::syscall(libc::SYS_gettid) as i32 }
}

fn futex_blocked(tid: i32) -> bool {
    let st = match std::fs::read_to_string(format!("/proc/self/task/{}/stat", tid)) {
        Ok(s) => s,
        Err(_) => return false,
    };
    let state = st.rsplit(')').next().unwrap_or("").trim_start().chars().next().unwrap_or('?');
    if state != 'S' {
        return false;
    }
    match std::fs::read_to_string(format!("/proc/self/task/{}/syscall", tid)) {
        Ok(s) => {
            let f: Vec<&str> = s.split_whitespace().collect();
            // nr a0 a1 a2 a3(timeout) ...: futex, no timeout
            f.len() >= 5 && f[0] == format!("{}", libc::SYS_futex) && f[4] == "0x0"
        }
        Err(_) => false,
    }
}

// ---------------------------------------------------------------------------------------------
// gated worker threads (steered schedules)
// ---------------------------------------------------------------------------------------------
enum Msg {
    Tid(u64, usize, i32),               // (pool generation, worker, os thread id)
    Done(u64, usize, &'static str, u64), // (pool generation, worker, answer class, uid)
}

static POOL: AtomicU64 = AtomicU64::new(0);

struct W {
    name: String,
    tid: i32,
    tx: Option<Sender<Cmd>>,
    busy: bool,
    last: Option<(&'static str, u64)>, // answer of the call that completed since the last comparison
    handle: Option<std::thread::JoinHandle<()>>,
}

fn spawn_worker(idx: usize, seed: u64, res: Sender<Msg>) -> (Sender<Cmd>, std::thread::JoinHandle<()>) {
    let (tx, rx): (Sender<Cmd>, Receiver<Cmd>) = channel();
    let pool = POOL.load(Ordering::SeqCst);
    let h = std::thread::spawn(move || {
        PRNG.with(|g| *g.borrow_mut() = Some(StdRng::seed_from_u64(seed ^ ((idx as u64 + 1) << 40))));
        let _ = res.send(Msg::Tid(pool, idx, gettid()));
        let mut q: Q = MemoryBoundedQueue::new(0);
        while let Ok(cmd) = rx.recv() {
            if let Cmd::Reset(nq, gen) = cmd {
                q = nq;
                ME.with(|m| m.set((gen, idx as i64)));
                continue;
            }
            let (cls, uid) = exec(&q, idx as i64, &cmd);
            if res.send(Msg::Done(pool, idx, cls, uid)).is_err() {
                break;
            }
        }
    });
    (tx, h)
}

fn drain(rx: &Receiver<Msg>, ws: &mut [W]) -> bool {
    let mut got = false;
    while let Ok(m) = rx.try_recv() {
        got = true;
        apply(m, ws);
    }
    got
}

fn apply(m: Msg, ws: &mut [W]) {
    let pool = POOL.load(Ordering::SeqCst);
    match m {
        Msg::Tid(p, i, t) if p == pool => ws[i].tid = t,
        Msg::Done(p, i, cls, uid) if p == pool => {
            ws[i].busy = false;
            ws[i].last = Some((cls, uid));
        }
        _ => {} // a thread of an abandoned pool
    }
}

/// Wait until nothing can move without a new command: no worker is inside a queue call any
/// more (all result messages arrived), or every worker sleeps in an untimed futex wait (parked
/// on its command channel, or blocked inside the queue) while neither events nor results appear
/// during two consecutive scans.  The bounded waits only pace the re-scan; the watchdog is a
/// tool error, never a verdict.
fn settle(ws: &mut [W], rx: &Receiver<Msg>, watchdog: Duration) -> Result<()> {
    let t0 = Instant::now();
    let mut good = 0;
    loop {
        drain(rx, ws);
        if !ws.iter().any(|w| w.busy) {
            return Ok(());
        }
        let c1 = EVCOUNT.load(Ordering::SeqCst);
        // ALL workers are scanned, not only the busy ones: a worker that already delivered its
        // result may still hold (or wait for) a lock inside the channel implementation
        let all = ws.iter().all(|w| w.tid != 0 && futex_blocked(w.tid));
        if all {
            if !drain(rx, ws) && EVCOUNT.load(Ordering::SeqCst) == c1 {
                good += 1;
                if good >= 2 {
                    return Ok(());
                }
            } else {
                good = 0;
            }
            continue;
        }
        good = 0;
        match rx.recv_timeout(Duration::from_micros(100)) {
            Ok(m) => apply(m, ws),
            Err(std::sync::mpsc::RecvTimeoutError::Timeout) => {}
            Err(_) => bail!("workers gone"),
        }
        if t0.elapsed() > watchdog {
            bail!("settle watchdog: threads neither finish nor block ({} s)", watchdog.as_secs());
        }
    }
}

/// Which kind of wait a busy (blocked) worker is in, from its last queue event.
fn blocked_kind(log: &[Value], idx: usize) -> &'static str {
    for e in log.iter().rev() {
        if e["t"].as_i64() == Some(idx as i64) {
            return match e["ev"].as_str().unwrap_or("") {
                "push_wait" => "pwait",
                "pull_wait" => "cwait",
                _ => "running",
            };
        }
    }
    "running"
}

fn id_key(v: &Value) -> String {
    v.to_string()
}

/// REPLAY / steered schedules: behaviours printed by MC_Queue (Hist = TRUE).
/// --in behaviours.ndjson --out trace.ndjson [--compare 1] [--seed s]
fn steer(a: &Args) -> Result<()> {
    util::install_panic_hook();
    install_sink();
    let compare = a.num("compare", 1u32) == 1;
    let seed: u64 = a.num("seed", 1u64);
    let watchdog = Duration::from_secs(a.num("watchdog", 60u64));
    PERTURB.store(0, Ordering::SeqCst);
    let f = std::fs::File::open(a.get("in")?)?;
    let mut out = std::io::BufWriter::new(std::fs::File::create(a.get("out")?)?);
    let (mut nb, mut nsteps, mut skipped, mut ties, mut full, mut blocking) = (0u64, 0u64, 0u64, 0u64, 0u64, 0u64);
    let mut fails: Vec<Value> = vec![];
    let (rtx, rrx) = channel::<Msg>();
    let mut ws: Vec<W> = vec![]; // pool of gated workers, reused from behaviour to behaviour
    for line in std::io::BufReader::new(f).lines() {
        let line = line?;
        if line.trim().is_empty() {
            continue;
        }
        let b: Value = serde_json::from_str(&line)?;
        nb += 1;
        let cap = b["cap"].as_u64().unwrap() as usize;
        let names: Vec<String> = b["threads"].as_array().unwrap().iter().map(|x| x.as_str().unwrap().to_string()).collect();
        let gen = CASE.fetch_add(1, Ordering::SeqCst) + 1;
        take_log();
        let q: Q = MemoryBoundedQueue::new(cap);
        if ws.len() != names.len() {
            for w in ws.iter_mut() {
                w.tx = None;
            }
            for w in ws.iter_mut() {
                let _ = w.handle.take().unwrap().join();
            }
            ws.clear();
            POOL.fetch_add(1, Ordering::SeqCst);
            for i in 0..names.len() {
                let (tx, h) = spawn_worker(i, seed, rtx.clone());
                ws.push(W { name: String::new(), tid: 0, tx: Some(tx), busy: false, last: None, handle: Some(h) });
            }
        }
        for (i, n) in names.iter().enumerate() {
            ws[i].name = n.clone();
            ws[i].busy = false;
            ws[i].last = None;
            ws[i].tx.as_ref().unwrap().send(Cmd::Reset(q.clone(), gen)).map_err(|_| anyhow!("worker gone"))?;
        }
        let widx: HashMap<String, usize> = names.iter().enumerate().map(|(i, n)| (n.clone(), i)).collect();
        log_push(json!({"ev": "start", "case": nb, "cap": cap, "threads": names.len()}));
        let mut uids: HashMap<String, u64> = HashMap::new(); // model item id -> uid
        let mut prs: HashMap<u64, u32> = HashMap::new(); // uid -> priority
        let mut following = compare; // still comparing (false after a tie divergence)
        let mut fail: Option<Value> = None;
        let mut had_block = false;
        let steps = b["steps"].as_array().unwrap();
        for (si, st) in steps.iter().enumerate() {
            nsteps += 1;
            let t = widx[st["t"].as_str().unwrap()];
            let step = st["step"].as_str().unwrap();
            let cmd = match step {
                "push" | "try_push" => {
                    let k = id_key(&st["id"]);
                    let n = uids.len() as u64 + 1;
                    let uid = *uids.entry(k).or_insert(n);
                    let sz = st["sz"].as_u64().unwrap() as usize;
                    let pr = st["pr"].as_u64().unwrap() as u32;
                    prs.insert(uid, pr);
                    Some(if step == "push" { Cmd::Push { uid, sz, pr } } else { Cmd::TryPush { uid, sz, pr } })
                }
                "pull" => Some(Cmd::Pull),
                "try_pull" => Some(Cmd::TryPull),
                "close" => Some(Cmd::Close),
                _ => None, // wake / spurious: the real thread does that by itself
            };
            if let Some(c) = cmd {
                if ws[t].busy {
                    skipped += 1; // the real run took another (allowed) turn: this thread is still blocked
                    continue;
                }
                ws[t].busy = true;
                ws[t].last = None;
                ws[t].tx.as_ref().unwrap().send(c).map_err(|_| anyhow!("worker gone"))?;
                settle(&mut ws, &rrx, watchdog)?;
            }
            if !st["quiet"].as_bool().unwrap_or(false) {
                continue; // model: a wake-up is in flight, not a settled state
            }
            // ---- settled: record the observation, compare with the model's post-state --------
            let blocked: Vec<usize> = (0..ws.len()).filter(|&i| ws[i].busy).collect();
            if !blocked.is_empty() {
                had_block = true;
            }
            let (alen, acur, aclosed) = (q.len(), q.current_size(), q.is_closed());
            log_push(json!({"ev": "quiescent", "blocked": blocked, "api_len": alen, "api_cur": acur, "api_closed": aclosed as u8}));
            if !following || fail.is_some() {
                continue;
            }
            let log = LOG.lock().unwrap().clone();
            // bag of queued items from the hook events (ticket -> uid)
            let mut tick: BTreeMap<i64, u64> = BTreeMap::new();
            for e in log.iter() {
                match e["ev"].as_str().unwrap_or("") {
                    "admit" => {
                        tick.insert(e["ticket"].as_i64().unwrap(), e["uid"].as_u64().unwrap());
                    }
                    "take" => {
                        tick.remove(&e["ticket"].as_i64().unwrap());
                    }
                    _ => {}
                }
            }
            let real_bag: BTreeSet<u64> = tick.values().cloned().collect();
            let model_bag: BTreeSet<u64> = st["bag"].as_array().unwrap().iter().map(|x| *uids.get(&id_key(x)).unwrap_or(&0)).collect();
            let mut bad: Vec<String> = vec![];
            let mut tie = false;
            // answers of the calls completed in this window (model: steps since the previous settled state)
            let mut j = si;
            let mut model_ans: HashMap<usize, (String, u64)> = HashMap::new();
            loop {
                let s = &steps[j];
                let tt = widx[s["t"].as_str().unwrap()];
                let res = s["res"].as_str().unwrap();
                if res != "wait" && s["step"].as_str().unwrap() != "spurious" {
                    let cls = match res {
                        "admit" => "ok",
                        "refuse" => "closed",
                        "wouldblock" => "wouldblock",
                        "take" => "item",
                        "eos" | "empty" => "none",
                        "close" => "unit",
                        x => bail!("unknown model answer {}", x),
                    };
                    let rid = if res == "take" { *uids.get(&id_key(&s["rid"])).unwrap_or(&0) } else { 0 };
                    model_ans.insert(tt, (cls.to_string(), rid));
                }
                if j == 0 || steps[j - 1]["quiet"].as_bool().unwrap_or(false) {
                    break;
                }
                j -= 1;
            }
            for (i, w) in ws.iter().enumerate() {
                let mpc = st["pcs"][&w.name].as_str().unwrap_or("?");
                let rpc = if w.busy { blocked_kind(&log, i) } else { "idle" };
                if mpc != rpc {
                    bad.push(format!("thread {}: model {} real {}", w.name, mpc, rpc));
                }
                match (model_ans.get(&i), &w.last) {
                    (Some((mc, mu)), Some((rc, ru))) => {
                        if mc != rc {
                            bad.push(format!("answer of {}: model {} real {}", w.name, mc, rc));
                        } else if mc == "item" && mu != ru {
                            // another item than on this branch of the model: fine if it has the same
                            // priority (a tie - the sibling branch of the model), otherwise a mismatch
                            if prs.get(mu).is_some() && prs.get(mu) == prs.get(ru) {
                                tie = true;
                            } else {
                                bad.push(format!("answer of {}: model item {} (priority {:?}) real item {} (priority {:?})",
                                                 w.name, mu, prs.get(mu), ru, prs.get(ru)));
                            }
                        }
                    }
                    (Some((mc, _)), None) => {
                        if !w.busy {
                            bad.push(format!("answer of {}: model {} real none recorded", w.name, mc));
                        }
                    }
                    (None, Some((rc, _))) => bad.push(format!("answer of {}: model has none, real {}", w.name, rc)),
                    (None, None) => {}
                }
            }
            if tie && bad.is_empty() {
                // this behaviour's continuation is another branch of the model (TLC judges the recorded
                // execution as a whole)
                following = false;
                ties += 1;
                continue;
            }
            if alen as u64 != st["len"].as_u64().unwrap() {
                bad.push(format!("len: model {} real {}", st["len"], alen));
            }
            if acur as u64 != st["cur"].as_u64().unwrap() {
                bad.push(format!("current_size: model {} real {}", st["cur"], acur));
            }
            if aclosed != st["closed"].as_bool().unwrap() {
                bad.push(format!("closed: model {} real {}", st["closed"], aclosed));
            }
            if real_bag != model_bag {
                bad.push(format!("bag: model {:?} real {:?}", model_bag, real_bag));
            }
            if !bad.is_empty() {
                fail = Some(json!({"step": si, "diff": bad, "model": st}));
            }
            for w in ws.iter_mut() {
                w.last = None;
            }
        }
        // ---- end of behaviour: close (if the behaviour did not) so that blocked threads leave ----
        if !q.is_closed() {
            // issued by the harness itself (thread index = number of workers)
            ME.with(|m| m.set((gen, ws.len() as i64)));
            exec(&q, ws.len() as i64, &Cmd::Close);
            ME.with(|m| m.set((0, -1)));
            settle(&mut ws, &rrx, watchdog)?;
        }
        let blocked: Vec<usize> = (0..ws.len()).filter(|&i| ws[i].busy).collect();
        let stuck = !blocked.is_empty();
        log_push(json!({"ev": if stuck { "quiescent" } else { "end" }, "blocked": blocked,
                        "api_len": q.len(), "api_cur": q.current_size(), "api_closed": q.is_closed() as u8}));
        if stuck {
            // the blocked threads are abandoned (reported by the quiescent record); new pool next time
            for w in ws.iter_mut() {
                w.tx = None;
                w.handle = None;
            }
            ws.clear();
        }
        if following && fail.is_none() {
            full += 1;
        }
        if had_block {
            blocking += 1;
        }
        if let Some(mut f) = fail {
            if fails.len() < 20 {
                f["behaviour"] = b.clone();
                fails.push(f);
            }
        }
        for e in take_log() {
            writeln!(out, "{}", e)?;
        }
    }
    out.flush()?;
    println!("{}", json!({"behaviours": nb, "steps": nsteps, "fails": fails, "followed_to_end": full,
                          "tie_branch_left": ties, "steps_skipped": skipped, "behaviours_with_blocking": blocking}));
    Ok(())
}

// ---------------------------------------------------------------------------------------------
// free-running stress with perturbation (TRACE)
// ---------------------------------------------------------------------------------------------
/// --out trace.ndjson --cases n --seed s --caps 2,5,64 --maxthreads 16 --items 12 --perturb 150
fn stress(a: &Args) -> Result<()> {
    util::install_panic_hook();
    install_sink();
    let seed: u64 = a.num("seed", 1u64);
    let cases: u64 = a.num("cases", 10u64);
    let maxthreads: usize = a.num("maxthreads", 16usize);
    let items: usize = a.num("items", 12usize);
    let watchdog = Duration::from_secs(a.num("watchdog", 120u64));
    let caps: Vec<usize> = a.opt("caps").unwrap_or("2,5,64").split(',').filter_map(|x| x.parse().ok()).collect();
    PERTURB.store(a.num("perturb", 150u32), Ordering::SeqCst);
    let mut out = std::io::BufWriter::new(std::fs::File::create(a.get("out")?)?);
    let mut rng = util::rng(seed.wrapping_mul(0x9E3779B97F4A7C15) ^ 0xC06);
    let mut summary: Vec<Value> = vec![];
    for case in 0..cases {
        let cap = caps[(case as usize) % caps.len()];
        let total = rng.gen_range(2..=maxthreads.max(2));
        let np = rng.gen_range(1..total);
        let nc = total - np;
        let early_close = rng.gen_bool(0.3);
        let oversize = rng.gen_bool(0.5);
        let nprio: u32 = rng.gen_range(1..=4);
        let leave_early = rng.gen_bool(0.2); // some consumers stop after a few items
        let gen = CASE.fetch_add(1, Ordering::SeqCst) + 1;
        take_log();
        let q: Q = MemoryBoundedQueue::new(cap);
        let (rtx, rrx) = channel::<Msg>();
        ME.with(|m| m.set((gen, 0)));
        PRNG.with(|g| *g.borrow_mut() = Some(StdRng::seed_from_u64(seed ^ case)));
        log_push(json!({"ev": "start", "case": case, "cap": cap, "threads": total + 1, "producers": np, "consumers": nc,
                        "early_close": early_close}));
        let mut uid = 0u64;
        let mut handles = vec![];
        let mut holds: Vec<Sender<()>> = vec![];
        let mut tids: Vec<i32> = vec![0; total + 1];
        let mut done: Vec<bool> = vec![false; total + 1];
        done[0] = true;
        for i in 1..=total {
            let is_prod = i <= np;
            let tseed: u64 = rng.gen();
            // producer script
            let mut script: Vec<Cmd> = vec![];
            if is_prod {
                for _ in 0..rng.gen_range(1..=items) {
                    uid += 1;
                    let r: f64 = rng.gen();
                    let sz = if r < 0.12 { 0 } else if oversize && r > 0.9 { cap + rng.gen_range(1..3usize) } else { rng.gen_range(1..=cap) };
                    let pr = rng.gen_range(0..nprio);
                    script.push(if rng.gen_bool(0.7) { Cmd::Push { uid, sz, pr } } else { Cmd::TryPush { uid, sz, pr } });
                }
            }
            let quota: usize = if !is_prod && leave_early && rng.gen_bool(0.5) { rng.gen_range(1..6) } else { usize::MAX };
            let q2 = q.clone();
            let rtx2 = rtx.clone();
            let (hold_tx, hold_rx) = channel::<()>();
            holds.push(hold_tx);
            handles.push(std::thread::spawn(move || {
                ME.with(|m| m.set((gen, i as i64)));
                let mut g = StdRng::seed_from_u64(tseed);
                PRNG.with(|p| *p.borrow_mut() = Some(StdRng::seed_from_u64(tseed ^ 0x55)));
                let _ = rtx2.send(Msg::Tid(0, i, gettid()));
                if is_prod {
                    for c in script.iter() {
                        if g.gen_bool(0.3) {
                            std::thread::yield_now();
                        }
                        let (cls, _) = exec(&q2, i as i64, c);
                        if cls == "closed" || cls == "panic" {
                            break;
                        }
                    }
                } else {
                    let mut got = 0usize;
                    let mut tries = 0usize;
                    loop {
                        if g.gen_bool(0.3) {
                            std::thread::yield_now();
                        }
                        let c = if tries < 20 && g.gen_bool(0.25) { tries += 1; Cmd::TryPull } else { Cmd::Pull };
                        let (cls, _) = exec(&q2, i as i64, &c);
                        match (cls, &c) {
                            ("item", _) => {
                                got += 1;
                                if got >= quota {
                                    break;
                                }
                            }
                            ("none", Cmd::Pull) => break, // end-of-stream
                            ("none", _) => {}
                            _ => break,
                        }
                    }
                }
                let _ = rtx2.send(Msg::Done(0, i, "unit", 0));
                // stay parked (untimed futex wait) until the case is over, so that a finished
                // thread and a blocked thread look the same to the quiescence scan
                let _ = hold_rx.recv();
            }));
        }
        // main thread: close after the producers are done, or early after some events
        let close_at: u64 = EVCOUNT.load(Ordering::SeqCst) + rng.gen_range(1..(4 * items as u64 + 2));
        let t0 = Instant::now();
        let mut closed = false;
        let mut stuck: Option<Vec<usize>> = None;
        let mut good = 0;
        let absorb = |m: Msg, tids: &mut Vec<i32>, done: &mut Vec<bool>| match m {
            Msg::Tid(_, i, t) => tids[i] = t,
            Msg::Done(_, i, _, _) => done[i] = true,
        };
        loop {
            while let Ok(m) = rrx.try_recv() {
                absorb(m, &mut tids, &mut done);
            }
            if done.iter().all(|d| *d) {
                break;
            }
            let producers_done = (1..=np).all(|i| done[i]);
            if !closed && (producers_done || (early_close && EVCOUNT.load(Ordering::SeqCst) >= close_at)) {
                exec(&q, 0, &Cmd::Close);
                closed = true;
                continue;
            }
            // quiescence: EVERY thread (finished ones are parked) sleeps in an untimed futex wait
            // and nothing moves
            let c1 = EVCOUNT.load(Ordering::SeqCst);
            let all = (1..=total).all(|i| tids[i] != 0 && futex_blocked(tids[i]));
            let mut moved = false;
            while let Ok(m) = rrx.try_recv() {
                absorb(m, &mut tids, &mut done);
                moved = true;
            }
            if all && !moved && EVCOUNT.load(Ordering::SeqCst) == c1 {
                good += 1;
                if good >= 3 {
                    if !closed {
                        // every producer is blocked or finished and every consumer is blocked or
                        // gone: not an end state yet - record it, close, and look again
                        let b: Vec<usize> = (1..=total).filter(|&i| !done[i]).collect();
                        log_push(json!({"ev": "quiescent", "blocked": b, "api_len": q.len(), "api_cur": q.current_size(),
                                        "api_closed": q.is_closed() as u8}));
                        exec(&q, 0, &Cmd::Close);
                        closed = true;
                        good = 0;
                        continue;
                    }
                    stuck = Some((1..=total).filter(|&i| !done[i]).collect());
                    break;
                }
            } else {
                good = 0;
                if let Ok(m) = rrx.recv_timeout(Duration::from_micros(200)) {
                    absorb(m, &mut tids, &mut done);
                }
            }
            if t0.elapsed() > watchdog {
                bail!("stress watchdog: case {} neither finishes nor blocks", case);
            }
        }
        drop(holds); // finished threads leave
        match &stuck {
            Some(b) => log_push(json!({"ev": "quiescent", "blocked": b, "api_len": q.len(), "api_cur": q.current_size(),
                                       "api_closed": q.is_closed() as u8})),
            None => {
                for h in handles {
                    let _ = h.join();
                }
                log_push(json!({"ev": "end", "blocked": [], "api_len": q.len(), "api_cur": q.current_size(),
                                "api_closed": q.is_closed() as u8}));
            }
        }
        ME.with(|m| m.set((0, -1)));
        let log = take_log();
        let n_wait = log.iter().filter(|e| matches!(e["ev"].as_str(), Some("push_wait") | Some("pull_wait"))).count();
        let n_take = log.iter().filter(|e| e["ev"] == "take").count();
        summary.push(json!({"case": case, "cap": cap, "threads": total, "events": log.len(), "waits": n_wait, "takes": n_take,
                            "stuck": stuck.is_some()}));
        for e in log {
            writeln!(out, "{}", e)?;
        }
    }
    out.flush()?;
    println!("{}", json!({"cases": cases, "summary": summary}));
    Ok(())
}
