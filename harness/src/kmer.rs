//! Binding of spec/Kmer.tla to ragc_core::kmer / kmer_extract.
use crate::util::{self, Args};
use anyhow::Result;
use ragc_core::kmer::{canonical_kmer, reverse_complement_kmer, Kmer, KmerMode};
use ragc_core::kmer_extract::enumerate_kmers;
use rand::Rng;
use serde_json::{json, Value};
use std::io::{BufRead, Write};

fn syms(v: &Value) -> Vec<u8> {
    v.as_array().map(|a| a.iter().map(|x| x.as_u64().unwrap() as u8).collect()).unwrap_or_default()
}

/// Projected real state after one step on the three Kmer objects.
struct Proj {
    size: u32,
    dir: Vec<u8>,
    rc: Vec<u8>,
    full: bool,
    canon: Vec<u8>,
    isdir: bool,
    lowzero: bool,
    modes_agree: bool,
}

struct Trio {
    k: u32,
    c: Kmer,
    d: Kmer,
    r: Kmer,
}
impl Trio {
    fn new(k: u32) -> Self {
        Trio { k, c: Kmer::new(k, KmerMode::Canonical), d: Kmer::new(k, KmerMode::Direct), r: Kmer::new(k, KmerMode::RevComp) }
    }
    fn step(&mut self, s: u8) {
        if s > 3 {
            self.c.reset();
            self.d.reset();
            self.r.reset();
        } else {
            self.c.insert(s as u64);
            self.d.insert(s as u64);
            self.r.insert(s as u64);
        }
    }
    fn proj(&self) -> Proj {
        let size = self.c.get_cur_size();
        let (dir, z1) = util::unpack(self.c.data_dir(), size);
        let (rc, z2) = util::unpack(self.c.data_rc(), size);
        let full = self.c.is_full();
        let (canon, z3) = if full { util::unpack(self.c.data(), self.k) } else { (vec![], true) };
        let z4 = self.c.data() == self.c.data_canonical();
        let modes_agree = self.d.data_dir() == self.c.data_dir()
            && self.d.data() == self.c.data_dir()
            && self.r.data_rc() == self.c.data_rc()
            && self.r.data() == self.c.data_rc()
            && self.d.get_cur_size() == size
            && self.r.get_cur_size() == size
            && self.d.is_full() == full
            && self.r.is_full() == full;
        Proj { size, dir, rc, full, canon, isdir: full && self.c.is_dir_oriented(), lowzero: z1 && z2 && z3 && z4, modes_agree }
    }
}

pub fn dispatch(cmd: &str, a: &Args) -> Option<Result<()>> {
    match cmd {
        "replay-kmer" => Some(replay(a)),
        "trace-kmer" => Some(trace(a)),
        _ => None,
    }
}

/// REPLAY: every behaviour printed by MC_Kmer is executed on the real objects; after each
/// step the projected real state must equal the model's post-state.
pub fn replay(a: &Args) -> Result<()> {
    util::install_panic_hook();
    let f = std::fs::File::open(a.get("in")?)?;
    let mut n = 0u64;
    let mut steps = 0u64;
    let mut fails: Vec<Value> = vec![];
    for line in std::io::BufReader::new(f).lines() {
        let line = line?;
        if line.trim().is_empty() {
            continue;
        }
        let b: Value = serde_json::from_str(&line)?;
        let k = b["k"].as_u64().unwrap() as u32;
        n += 1;
        let res = util::catch(|| {
            let mut t = Trio::new(k);
            let mut seq: Vec<u8> = vec![];
            for (i, st) in b["steps"].as_array().unwrap().iter().enumerate() {
                let s = st["sym"].as_u64().unwrap() as u8;
                seq.push(s);
                t.step(s);
                let p = t.proj();
                let mut bad = vec![];
                if p.size as u64 != st["size"].as_u64().unwrap() { bad.push("size"); }
                if p.dir != syms(&st["dir"]) { bad.push("dir"); }
                if p.rc != syms(&st["rc"]) { bad.push("rc"); }
                if p.full != st["full"].as_bool().unwrap() { bad.push("full"); }
                if p.full && p.canon != syms(&st["canon"]) { bad.push("canon"); }
                if p.full && p.isdir != st["isdir"].as_bool().unwrap() { bad.push("isdir"); }
                if !p.lowzero { bad.push("lowzero"); }
                if !p.modes_agree { bad.push("modes"); }
                if p.full {
                    // function-level API on the packed window
                    let w = util::pack(&p.dir);
                    let (c2, z) = util::unpack(canonical_kmer(w, k), k);
                    if c2 != syms(&st["canon"]) || !z { bad.push("canonical_kmer"); }
                    let (r2, z) = util::unpack(reverse_complement_kmer(w, k), k);
                    if r2 != syms(&st["rc"]) || !z { bad.push("reverse_complement_kmer"); }
                    if reverse_complement_kmer(reverse_complement_kmer(w, k), k) != w { bad.push("rc_involution"); }
                }
                if !bad.is_empty() {
                    return Some(json!({"step": i, "fields": bad, "model": st, "real": {"size": p.size, "dir": p.dir, "rc": p.rc, "full": p.full, "canon": p.canon, "isdir": p.isdir}}));
                }
            }
            // enumerate_kmers on the whole history
            let en: Vec<Vec<u8>> = enumerate_kmers(&seq, k as usize).iter().map(|&x| util::unpack(x, k).0).collect();
            let want: Vec<Vec<u8>> = b["enum"].as_array().unwrap().iter().map(syms).collect();
            if en != want {
                return Some(json!({"step": "enumerate_kmers", "fields": ["enum"], "model": want, "real": en}));
            }
            None
        });
        steps += b["steps"].as_array().unwrap().len() as u64;
        match res {
            Ok(None) => {}
            Ok(Some(mut v)) => {
                v["behaviour"] = b.clone();
                fails.push(v);
            }
            Err(p) => fails.push(json!({"panic": p, "behaviour": b})),
        }
        if fails.len() >= 20 {
            break;
        }
    }
    println!("{}", json!({"behaviours": n, "steps": steps, "fails": fails}));
    Ok(())
}

/// TRACE: random long sequences on the real objects, one event per call.
pub fn trace(a: &Args) -> Result<()> {
    util::install_panic_hook();
    let k: u32 = a.num("k", 21);
    let nseq: usize = a.num("nseq", 4);
    let len: usize = a.num("len", 200);
    let mut rng = util::rng(a.num("seed", 1u64) ^ ((k as u64) << 32));
    let mut out = std::io::BufWriter::new(std::fs::File::create(a.get("out")?)?);
    if a.flag("windows") {
        // all 4^k windows through the function-level API
        writeln!(out, "{}", json!({"ev": "start", "case": 0, "k": k}))?;
        for x in 0..(1u64 << (2 * k)) {
            let w: Vec<u8> = (0..k).map(|i| ((x >> (2 * (k - 1 - i))) & 3) as u8).collect();
            let p = util::pack(&w);
            let (c, z1) = util::unpack(canonical_kmer(p, k), k);
            let (r, z2) = util::unpack(reverse_complement_kmer(p, k), k);
            let (rr, z3) = util::unpack(reverse_complement_kmer(reverse_complement_kmer(p, k), k), k);
            let (cr, z4) = util::unpack(canonical_kmer(reverse_complement_kmer(p, k), k), k);
            writeln!(out, "{}", json!({"ev": "win", "w": w, "fn_canon": c, "fn_rc": r, "fn_rcrc": rr, "fn_canon_of_rc": cr, "fn_lowzero": z1 && z2 && z3 && z4}))?;
        }
        out.flush()?;
        return Ok(());
    }
    for case in 0..nseq {
        writeln!(out, "{}", json!({"ev": "start", "case": case, "k": k}))?;
        let mut t = Trio::new(k);
        let pn: f64 = [0.0, 0.01, 0.05][case % 3];
        // low-entropy stretches make palindromic / self-complementary windows likely
        let mut seq: Vec<u8> = vec![];
        for _ in 0..len {
            let s: u8 = if rng.gen::<f64>() < pn { rng.gen_range(4..16) } else if case % 2 == 1 && !seq.is_empty() && rng.gen::<f64>() < 0.5 {
                // mirror: append complement of a recent symbol to build RC-palindromes
                let j = rng.gen_range(0..seq.len().min(2 * k as usize));
                let c = seq[seq.len() - 1 - j];
                if c < 4 { 3 - c } else { rng.gen_range(0..4) }
            } else { rng.gen_range(0..4) };
            seq.push(s);
            let r = util::catch(std::panic::AssertUnwindSafe(|| { t.step(s); t.proj() }));
            match r {
                Ok(p) => {
                    let mut ev = json!({"ev": "step", "sym": s, "size": p.size, "dir": p.dir, "rc": p.rc, "full": p.full,
                        "canon": p.canon, "isdir": p.isdir, "lowzero": p.lowzero, "modes": p.modes_agree});
                    if p.full {
                        let w = util::pack(&p.dir);
                        let (c2, z1) = util::unpack(canonical_kmer(w, k), k);
                        let (r2, z2) = util::unpack(reverse_complement_kmer(w, k), k);
                        let (c3, z3) = util::unpack(canonical_kmer(reverse_complement_kmer(w, k), k), k);
                        let (rr, _) = util::unpack(reverse_complement_kmer(reverse_complement_kmer(w, k), k), k);
                        ev["fn_canon"] = json!(c2);
                        ev["fn_rc"] = json!(r2);
                        ev["fn_canon_of_rc"] = json!(c3);
                        ev["fn_rcrc"] = json!(rr);
                        ev["fn_lowzero"] = json!(z1 && z2 && z3);
                    }
                    writeln!(out, "{}", ev)?;
                }
                Err(p) => {
                    writeln!(out, "{}", json!({"ev": "panic", "msg": p}))?;
                    break;
                }
            }
        }
        let en: Vec<Vec<u8>> = enumerate_kmers(&seq, k as usize).iter().map(|&x| util::unpack(x, k).0).collect();
        writeln!(out, "{}", json!({"ev": "enum", "result": en}))?;
    }
    out.flush()?;
    Ok(())
}
