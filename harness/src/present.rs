//! Binding of spec/Presentation.tla (C19: extraction is invariant under how the input is presented).
//!
//! `replay-present`  REPLAY direction: every line is one terminal state of MC_Presentation (records, options and
//!                   the presented files byte by byte as the MODEL computed them).  The model's bytes are written
//!                   (each gzip member compressed on its own by flate2 and concatenated), the real reader
//!                   (MultiFileIterator, per file, as the CLI drives it) and the real create + Decompressor are run
//!                   and compared with the model's records; archives of one SameBytesClass must have one sha256.
//!                   The harness' own presenter (used for the big inputs below) is compared with the model's bytes.
//! `trace-present`   TRACE direction: one generated sample set (crate::gen), many presentations of it (base ones,
//!                   TLC-generated option combinations, seeded random ones: widths up to 100000, many members, cuts
//!                   inside headers / after '>' / inside lines / between CR and LF / empty members / bgzip blocks),
//!                   real create (library call sequence and, for a subset, the real `ragc` binary), real listing and
//!                   extraction; everything is logged as events for spec/Trace_Presentation.tla.
//! This file only presents, drives and projects (codes -> digest); no verdict on the property is made here
//! except the REPLAY comparison "model record list = what the real code returned".
use crate::archive::{create_like_cli, CreateOpts};
use crate::gen;
use crate::util::{self, Args};
use anyhow::{anyhow, bail, Context, Result};
use flate2::{write::GzEncoder, Compression};
use ragc_core::contig_iterator::ContigIterator;
use ragc_core::{Decompressor, DecompressorConfig, MultiFileIterator};
use rand::rngs::StdRng;
use rand::Rng;
use rayon::prelude::*;
use serde_json::{json, Value};
use std::collections::BTreeMap;
use std::io::{BufRead, Write};
use std::path::{Path, PathBuf};
use std::sync::atomic::{AtomicUsize, Ordering};
use std::sync::Mutex;

pub fn dispatch(cmd: &str, a: &Args) -> Option<Result<()>> {
    match cmd {
        "replay-present" => Some(replay(a)),
        "trace-present" => Some(trace(a)),
        _ => None,
    }
}

// ------------------------------------------------------------------------------------------------
// abstract records and options
// ------------------------------------------------------------------------------------------------
#[derive(Clone, PartialEq, Debug)]
pub struct Rec {
    pub sample: Vec<u8>,
    pub header: Vec<u8>,
    pub seq: Vec<u8>,
}

#[derive(Clone, Debug, PartialEq)]
enum CaseMode {
    Upper,
    Lower,
    MixedPhase(u8), // position i (1-based) is lower iff (i + phase) is even  (the model's "mixed")
    MixedRandom(u64),
}

#[derive(Clone, Debug)]
enum Cuts {
    Offsets(Vec<usize>),                 // the same offsets in every file, clamped (the model's `cuts`)
    Random { seed: u64, n: usize },      // per file: n cuts at random places of random kinds
    Bgzf { block: usize },               // bgzip style: fixed-size blocks + an empty last member
}

#[derive(Clone, Debug)]
struct Opt {
    single: bool,
    fname_sample: bool,
    stemext: Vec<u8>,
    width: usize,
    crlf: bool,
    case: CaseMode,
    finalnl: bool,
    gz: bool,
    cuts: Cuts,
    subdirs: bool, // files in differently named sub-directories (irrelevant to the naming rule)
}

struct PFile {
    name: Vec<u8>,
    gz: bool,
    members: Vec<Vec<u8>>,
}

fn bytes_of(v: &Value) -> Vec<u8> {
    v.as_array().map(|a| a.iter().map(|x| x.as_u64().unwrap_or(0) as u8).collect()).unwrap_or_default()
}
fn jb(b: &[u8]) -> Value {
    Value::Array(b.iter().map(|&x| json!(x)).collect())
}
fn recs_of(v: &Value) -> Vec<Rec> {
    v.as_array()
        .map(|a| a.iter().map(|r| Rec { sample: bytes_of(&r["sample"]), header: bytes_of(&r["header"]), seq: bytes_of(&r["seq"]) }).collect())
        .unwrap_or_default()
}

fn opt_of(v: &Value) -> Result<Opt> {
    let case = match (v["case"].as_str().unwrap_or("upper"), v["phase"].as_u64().unwrap_or(0)) {
        ("upper", _) => CaseMode::Upper,
        ("lower", _) => CaseMode::Lower,
        ("mixed", p) => CaseMode::MixedPhase(p as u8),
        (o, _) => bail!("unknown case {}", o),
    };
    Ok(Opt {
        single: v["layout"].as_str() == Some("single"),
        fname_sample: v["fname"].as_str() == Some("sample"),
        stemext: bytes_of(&v["stemext"]),
        width: v["width"].as_u64().unwrap_or(0) as usize,
        crlf: v["crlf"].as_bool().unwrap_or(false),
        case,
        finalnl: v["finalnl"].as_bool().unwrap_or(true),
        gz: v["container"].as_str() == Some("gz"),
        cuts: Cuts::Offsets(v["cuts"].as_array().map(|a| a.iter().map(|x| x.as_u64().unwrap_or(0) as usize).collect()).unwrap_or_default()),
        subdirs: false,
    })
}

fn opt_json(o: &Opt) -> Value {
    json!({
        "layout": if o.single { "single" } else { "per_sample" },
        "fname": if o.fname_sample { "sample" } else { "other" },
        "stemext": jb(&o.stemext),
        "width": o.width, "crlf": o.crlf,
        "case": match o.case { CaseMode::Upper => "upper", CaseMode::Lower => "lower", _ => "mixed" },
        "finalnl": o.finalnl,
        "container": if o.gz { "gz" } else { "plain" },
    })
}

// ------------------------------------------------------------------------------------------------
// the presenter: records -> groups -> lines -> bytes -> container   (spec/Presentation.tla `Present`)
// ------------------------------------------------------------------------------------------------
fn groups(recs: &[Rec]) -> Vec<Vec<Rec>> {
    let mut gs: Vec<Vec<Rec>> = vec![];
    for r in recs {
        match gs.last_mut() {
            Some(g) if g[0].sample == r.sample => g.push(r.clone()),
            _ => gs.push(vec![r.clone()]),
        }
    }
    gs
}

fn file_text(g: &[Rec], o: &Opt, file_idx: usize) -> Vec<u8> {
    let eol: &[u8] = if o.crlf { b"\r\n" } else { b"\n" };
    let mut lines: Vec<Vec<u8>> = vec![];
    let mut rng = match o.case {
        CaseMode::MixedRandom(s) => Some(util::rng(s ^ (file_idx as u64) << 20)),
        _ => None,
    };
    for r in g {
        let mut h = vec![b'>'];
        h.extend_from_slice(&r.header);
        lines.push(h);
        let chars: Vec<u8> = r
            .seq
            .iter()
            .enumerate()
            .map(|(i, &c)| {
                let u = gen::CODE2CHAR[c as usize];
                match &o.case {
                    CaseMode::Upper => u,
                    CaseMode::Lower => u.to_ascii_lowercase(),
                    CaseMode::MixedPhase(p) => if (i + 1 + *p as usize) % 2 == 0 { u.to_ascii_lowercase() } else { u },
                    CaseMode::MixedRandom(_) => if rng.as_mut().unwrap().gen_bool(0.5) { u.to_ascii_lowercase() } else { u },
                }
            })
            .collect();
        if o.width == 0 || chars.len() <= o.width {
            lines.push(chars);
        } else {
            for ch in chars.chunks(o.width) {
                lines.push(ch.to_vec());
            }
        }
    }
    let mut out = vec![];
    let n = lines.len();
    for (i, l) in lines.into_iter().enumerate() {
        out.extend_from_slice(&l);
        if i + 1 < n || o.finalnl {
            out.extend_from_slice(eol);
        }
    }
    out
}

/// kind of the boundary before byte c (0-based offset) of text t  (= MC_Presentation!CutKind)
fn cut_kind(t: &[u8], c: usize) -> &'static str {
    if c == 0 {
        return "start";
    }
    if c >= t.len() {
        return "end";
    }
    // b = number of bytes up to and including the last LF before offset c
    let b = t[..c].iter().rposition(|&x| x == b'\n').map(|p| p + 1).unwrap_or(0);
    if b == c {
        return "line_start";
    }
    let at = t[c];
    if t[b] == b'>' {
        if c == b + 1 { "after_gt" } else if at == b'\n' || at == b'\r' { "header_end" } else { "in_header" }
    } else if at == b'\n' && t[c - 1] == b'\r' {
        "cr_lf"
    } else if at == b'\n' || at == b'\r' {
        "line_end"
    } else {
        "in_seq"
    }
}

const KINDS: [&str; 9] = ["start", "end", "line_start", "after_gt", "header_end", "in_header", "cr_lf", "line_end", "in_seq"];

fn random_cuts(t: &[u8], r: &mut StdRng, n: usize) -> Vec<usize> {
    // positions of line starts
    let mut starts = vec![0usize];
    for (i, &b) in t.iter().enumerate() {
        if b == b'\n' && i + 1 < t.len() {
            starts.push(i + 1);
        }
    }
    let hdrs: Vec<usize> = starts.iter().cloned().filter(|&s| t[s] == b'>').collect();
    let seqs: Vec<usize> = starts.iter().cloned().filter(|&s| t[s] != b'>').collect();
    let line_end = |s: usize| -> usize { t[s..].iter().position(|&x| x == b'\n').map(|p| s + p).unwrap_or(t.len()) };
    let mut cuts = vec![];
    for _ in 0..n {
        let c = match r.gen_range(0..10) {
            0 => 0,
            1 => t.len(),
            2 => starts[r.gen_range(0..starts.len())],
            3 if !hdrs.is_empty() => hdrs[r.gen_range(0..hdrs.len())] + 1,
            4 if !hdrs.is_empty() => {
                let s = hdrs[r.gen_range(0..hdrs.len())];
                let e = line_end(s);
                if e > s + 2 { r.gen_range(s + 2..e) } else { s + 1 }
            }
            5 if !hdrs.is_empty() => {
                let e = line_end(hdrs[r.gen_range(0..hdrs.len())]);
                if e > 0 && t[e - 1] == b'\r' { e - 1 } else { e }
            }
            6 if !seqs.is_empty() => line_end(seqs[r.gen_range(0..seqs.len())]), // before LF (between CR and LF when CRLF)
            7 if !seqs.is_empty() => {
                let e = line_end(seqs[r.gen_range(0..seqs.len())]);
                if e > 0 && t[e - 1] == b'\r' { e - 1 } else { e }
            }
            8 if !cuts.is_empty() => cuts[r.gen_range(0..cuts.len())], // a duplicate: an empty member
            _ => {
                if !seqs.is_empty() {
                    let s = seqs[r.gen_range(0..seqs.len())];
                    let e = line_end(s);
                    if e > s + 1 { r.gen_range(s + 1..e) } else { s }
                } else {
                    r.gen_range(0..=t.len())
                }
            }
        };
        cuts.push(c.min(t.len()));
    }
    cuts.sort();
    cuts
}

fn cut_offsets(text: &[u8], o: &Opt, file_idx: usize) -> Vec<usize> {
    match &o.cuts {
        Cuts::Offsets(c) => c.iter().map(|&x| x.min(text.len())).collect(),
        Cuts::Random { seed, n } => {
            let mut r = util::rng(seed ^ ((file_idx as u64 + 1) * 0x9E37));
            random_cuts(text, &mut r, *n)
        }
        Cuts::Bgzf { block } => {
            let mut c = vec![];
            let mut p = *block;
            while p < text.len() {
                c.push(p);
                p += *block;
            }
            c.push(text.len()); // the empty end-of-file member
            c
        }
    }
}

fn dec(i: usize) -> Vec<u8> {
    i.to_string().into_bytes()
}

fn present(recs: &[Rec], o: &Opt) -> (Vec<PFile>, Vec<Vec<usize>>) {
    let gs = if o.single { vec![recs.to_vec()] } else { groups(recs) };
    let mut files = vec![];
    let mut all_cuts = vec![];
    for (i, g) in gs.iter().enumerate() {
        let text = file_text(g, o, i);
        let mut name: Vec<u8> = if o.fname_sample && !o.single {
            g[0].sample.clone()
        } else if o.fname_sample {
            b"pansn".to_vec()
        } else {
            let mut n = b"f".to_vec();
            n.extend(dec(i + 1));
            n
        };
        name.extend_from_slice(&o.stemext);
        if o.gz {
            name.extend_from_slice(b".gz");
        }
        let (members, cuts) = if o.gz {
            let cuts = cut_offsets(&text, o, i);
            let mut b = vec![0usize];
            b.extend(cuts.iter().cloned());
            b.push(text.len());
            ((0..b.len() - 1).map(|j| text[b[j]..b[j + 1]].to_vec()).collect(), cuts)
        } else {
            (vec![text], vec![])
        };
        files.push(PFile { name, gz: o.gz, members });
        all_cuts.push(cuts);
    }
    (files, all_cuts)
}

/// Write the files of one presentation; gzip members are compressed independently and concatenated.
fn write_files(dir: &Path, files: &[PFile], subdirs: bool, seed: u64) -> Result<Vec<PathBuf>> {
    std::fs::create_dir_all(dir)?;
    let mut paths = vec![];
    for (i, f) in files.iter().enumerate() {
        let d = if subdirs { dir.join(format!("sub.{}.fa", (i as u64 * 7 + seed) % 5)) } else { dir.to_path_buf() };
        std::fs::create_dir_all(&d)?;
        let name = String::from_utf8(f.name.clone()).map_err(|_| anyhow!("file name is not utf-8"))?;
        let p = d.join(name);
        let mut out = vec![];
        if f.gz {
            for (j, m) in f.members.iter().enumerate() {
                let level = [6u32, 1, 9, 0][((seed as usize) + i + j) % 4];
                let mut enc = GzEncoder::new(Vec::new(), Compression::new(level));
                enc.write_all(m)?;
                out.extend(enc.finish()?);
            }
        } else {
            for m in &f.members {
                out.extend_from_slice(m);
            }
        }
        std::fs::write(&p, out).with_context(|| format!("write {}", p.display()))?;
        paths.push(p);
    }
    Ok(paths)
}

// ------------------------------------------------------------------------------------------------
// driving the real code
// ------------------------------------------------------------------------------------------------
/// What the real reader feeds to the compressor for one file, exactly as main.rs reads it.
fn read_file_real(p: &Path) -> std::result::Result<Vec<Rec>, String> {
    let r = util::catch(std::panic::AssertUnwindSafe(|| -> Result<Vec<Rec>> {
        let mut it = MultiFileIterator::new(vec![p.to_path_buf()])?;
        let mut out = vec![];
        while let Some((sample, contig, seq)) = it.next_contig()? {
            if seq.is_empty() {
                continue;
            }
            out.push(Rec { sample: sample.into_bytes(), header: contig.into_bytes(), seq });
        }
        Ok(out)
    }));
    match r {
        Ok(Ok(v)) => Ok(v),
        Ok(Err(e)) => Err(format!("err: {:#}", e)),
        Err(p) => Err(format!("panic: {}", p)),
    }
}

struct Created {
    result: &'static str,
    msg: String,
    sha: String,
}

fn create_lib(paths: &[PathBuf], out: &Path, k: usize, seg: usize, mm: usize, threads: usize) -> Created {
    let o = CreateOpts {
        files: paths.iter().map(|p| p.to_string_lossy().to_string()).collect(),
        out: out.to_string_lossy().to_string(),
        k,
        segment_size: seg,
        min_match: mm,
        threads,
        queue_capacity: 2usize << 30,
        fallback_frac: 0.0,
        pack_size: 50,
        level: 17,
    };
    let _ = std::fs::remove_file(out);
    let r = util::catch(std::panic::AssertUnwindSafe(|| create_like_cli(&o)));
    finish_create(
        match r {
            Ok(Ok(())) => ("ok", String::new()),
            Ok(Err(e)) => ("err", format!("{:#}", e)),
            Err(p) => ("panic", p),
        },
        out,
    )
}

fn finish_create(r: (&'static str, String), out: &Path) -> Created {
    let sha = if r.0 == "ok" { std::fs::read(out).map(|b| util::sha256_hex(&b)).unwrap_or_default() } else { String::new() };
    Created { result: r.0, msg: r.1.chars().take(300).collect(), sha }
}

static RUNS: AtomicUsize = AtomicUsize::new(0);

fn run_bin(ragc: &str, args: &[String], wd: &Path) -> Result<(Option<i32>, Vec<u8>, String)> {
    let n = RUNS.fetch_add(1, Ordering::SeqCst);
    let so = wd.join(format!("stdout_{}_{}", std::process::id(), n));
    let se = wd.join(format!("stderr_{}_{}", std::process::id(), n));
    let mut child = std::process::Command::new(ragc)
        .args(args)
        .current_dir(wd)
        .env("RUST_BACKTRACE", "0")
        .stdin(std::process::Stdio::null())
        .stdout(std::fs::File::create(&so)?)
        .stderr(std::fs::File::create(&se)?)
        .spawn()
        .with_context(|| format!("cannot start {}", ragc))?;
    let t0 = std::time::Instant::now();
    let status = loop {
        if let Some(st) = child.try_wait()? {
            break st;
        }
        if t0.elapsed().as_secs() > 900 {
            let _ = child.kill();
            bail!("timeout (900 s) running ragc {:?}", args); // a tool error, never a verdict
        }
        std::thread::sleep(std::time::Duration::from_millis(if t0.elapsed().as_millis() < 200 { 2 } else { 20 }));
    };
    let stdout = std::fs::read(&so)?;
    let stderr = String::from_utf8_lossy(&std::fs::read(&se)?).to_string();
    let _ = std::fs::remove_file(&so);
    let _ = std::fs::remove_file(&se);
    let tail: String = stderr.chars().rev().take(300).collect::<String>().chars().rev().collect();
    Ok((status.code(), stdout, tail))
}

fn create_cli(ragc: &str, paths: &[PathBuf], out: &Path, k: usize, seg: usize, mm: usize, threads: usize, wd: &Path) -> Result<Created> {
    let _ = std::fs::remove_file(out);
    let mut args: Vec<String> = vec!["create".into(), "-o".into(), out.to_string_lossy().to_string(), "-k".into(), k.to_string(), "-s".into(), seg.to_string(),
        "-m".into(), mm.to_string(), "-t".into(), threads.to_string(), "-v".into(), "0".into()];
    for p in paths {
        args.push(p.to_string_lossy().to_string());
    }
    let (code, _so, se) = run_bin(ragc, &args, wd)?;
    Ok(finish_create(if code == Some(0) { ("ok", String::new()) } else { ("err", format!("exit {:?}: {}", code, se)) }, out))
}

struct Extracted {
    result: &'static str,
    msg: String,
    samples: Vec<Vec<u8>>,
    contigs: Vec<Rec>, // sample, name as the reader reports it, codes
}

fn extract_lib(agc: &Path) -> Extracted {
    let r = util::catch(std::panic::AssertUnwindSafe(|| -> Result<(Vec<Vec<u8>>, Vec<Rec>)> {
        let mut d = Decompressor::open(&agc.to_string_lossy(), DecompressorConfig { verbosity: 0 })?;
        let samples = d.list_samples();
        let mut contigs = vec![];
        for s in &samples {
            for (n, q) in d.get_sample(s)? {
                contigs.push(Rec { sample: s.clone().into_bytes(), header: n.into_bytes(), seq: q });
            }
        }
        Ok((samples.into_iter().map(|s| s.into_bytes()).collect(), contigs))
    }));
    match r {
        Ok(Ok((samples, contigs))) => Extracted { result: "ok", msg: String::new(), samples, contigs },
        Ok(Err(e)) => Extracted { result: "err", msg: format!("{:#}", e), samples: vec![], contigs: vec![] },
        Err(p) => Extracted { result: "panic", msg: p, samples: vec![], contigs: vec![] },
    }
}

/// `ragc listset` + `ragc getset <sample>` per listed sample; FASTA text projected back to codes.
fn extract_cli(ragc: &str, agc: &Path, wd: &Path) -> Result<Extracted> {
    let a = agc.to_string_lossy().to_string();
    let (code, so, se) = run_bin(ragc, &["listset".into(), a.clone()], wd)?;
    if code != Some(0) {
        return Ok(Extracted { result: "err", msg: format!("listset exit {:?}: {}", code, se), samples: vec![], contigs: vec![] });
    }
    let samples: Vec<Vec<u8>> = so.split(|&b| b == b'\n').filter(|l| !l.is_empty()).map(|l| l.to_vec()).collect();
    let mut contigs = vec![];
    for s in &samples {
        let (code, so, se) = run_bin(ragc, &["getset".into(), a.clone(), String::from_utf8_lossy(s).to_string()], wd)?;
        if code != Some(0) {
            return Ok(Extracted { result: "err", msg: format!("getset exit {:?}: {}", code, se), samples, contigs });
        }
        for line in so.split(|&b| b == b'\n') {
            if line.is_empty() {
                continue;
            }
            if line[0] == b'>' {
                contigs.push(Rec { sample: s.clone(), header: line[1..].to_vec(), seq: vec![] });
            } else if let Some(c) = contigs.last_mut() {
                for &ch in line {
                    // projection of the output alphabet (upper-case symbol table); anything else is code 99
                    c.seq.push(gen::CODE2CHAR.iter().position(|&x| x == ch).map(|p| p as u8).unwrap_or(99));
                }
            } else {
                return Ok(Extracted { result: "err", msg: "getset output does not start with a header".into(), samples, contigs });
            }
        }
    }
    Ok(Extracted { result: "ok", msg: String::new(), samples, contigs })
}

fn dig(codes: &[u8]) -> String {
    util::sha256_hex(codes)[..24].to_string()
}

// ------------------------------------------------------------------------------------------------
// REPLAY: terminal states of MC_Presentation on the real code
// ------------------------------------------------------------------------------------------------
fn rec_json(r: &Rec) -> Value {
    json!({"sample": String::from_utf8_lossy(&r.sample), "header": String::from_utf8_lossy(&r.header), "seq": r.seq})
}

fn replay(a: &Args) -> Result<()> {
    util::install_panic_hook();
    let input = a.get("in")?;
    let dir = PathBuf::from(a.get("dir")?);
    let create_mod = a.num("create-mod", 1usize).max(1);
    let jobs = a.num("jobs", 6usize);
    let (k, seg, mm) = (a.num("k", 3usize), a.num("seg", 4usize), a.num("mm", 3usize));
    std::fs::create_dir_all(&dir)?;
    let lines: Vec<String> = std::io::BufReader::new(std::fs::File::open(input)?).lines().collect::<std::io::Result<Vec<_>>>()?;
    let lines: Vec<String> = lines.into_iter().filter(|l| !l.trim().is_empty()).collect();
    let fails: Mutex<Vec<Value>> = Mutex::new(vec![]);
    let tool: Mutex<Vec<String>> = Mutex::new(vec![]);
    // (records, bytes key) -> (sha, behaviour index)
    let shas: Mutex<BTreeMap<String, (String, usize)>> = Mutex::new(BTreeMap::new());
    let steps = AtomicUsize::new(0);
    let creates = AtomicUsize::new(0);
    let agree = AtomicUsize::new(0);
    let kinds_seen: Mutex<BTreeMap<String, usize>> = Mutex::new(BTreeMap::new());
    let pool = rayon::ThreadPoolBuilder::new().num_threads(jobs).build()?;
    pool.install(|| {
        lines.par_iter().enumerate().for_each(|(bi, line)| {
            let r = (|| -> Result<()> {
                let v: Value = serde_json::from_str(line)?;
                let recs = recs_of(&v["recs"]);
                let o = opt_of(&v["opt"])?;
                let model: Vec<PFile> = v["files"]
                    .as_array()
                    .ok_or_else(|| anyhow!("no files"))?
                    .iter()
                    .map(|f| PFile {
                        name: bytes_of(&f["name"]),
                        gz: f["gz"].as_bool().unwrap_or(false),
                        members: f["members"].as_array().map(|m| m.iter().map(bytes_of).collect()).unwrap_or_default(),
                    })
                    .collect();
                // (0) the harness' presenter agrees with the model's Present (tool self-check, not a verdict)
                let (mine, cuts) = present(&recs, &o);
                let same = mine.len() == model.len() && mine.iter().zip(model.iter()).all(|(x, y)| x.name == y.name && x.gz == y.gz && x.members == y.members);
                if !same {
                    tool.lock().unwrap().push(format!("behaviour {}: harness presenter differs from the model's Present", bi));
                } else {
                    agree.fetch_add(1, Ordering::SeqCst);
                }
                if o.gz && !mine.is_empty() {
                    let t: Vec<u8> = mine[0].members.concat();
                    let mk: Vec<String> = cuts[0].iter().map(|&c| cut_kind(&t, c).to_string()).collect();
                    let model_k: Vec<String> = v["kinds"].as_array().map(|a| a.iter().map(|x| x.as_str().unwrap_or("").to_string()).collect()).unwrap_or_default();
                    if mk != model_k {
                        tool.lock().unwrap().push(format!("behaviour {}: cut kinds {:?} differ from the model's {:?}", bi, mk, model_k));
                    }
                    let mut ks = kinds_seen.lock().unwrap();
                    for k in mk {
                        *ks.entry(k).or_insert(0) += 1;
                    }
                }
                // (1) the model's bytes through the real reader, file by file
                let d = dir.join(format!("b{}", bi));
                let paths = write_files(&d, &model, false, bi as u64)?;
                let groups_model = if o.single { vec![recs.clone()] } else { groups(&recs) };
                let mut fail = |kind: &str, detail: Value| {
                    fails.lock().unwrap().push(json!({"kind": kind, "behaviour": bi, "opt": v["opt"], "family": v["family"], "files": v["files"],
                        "recs": v["recs"], "detail": detail}));
                };
                for (fi, p) in paths.iter().enumerate() {
                    steps.fetch_add(1, Ordering::SeqCst);
                    match read_file_real(p) {
                        Ok(got) => {
                            if got != groups_model[fi] {
                                fail("reader", json!({"file": fi, "got": got.iter().map(rec_json).collect::<Vec<_>>(),
                                    "want": groups_model[fi].iter().map(rec_json).collect::<Vec<_>>()}));
                            }
                        }
                        Err(m) => fail("reader", json!({"file": fi, "got": m})),
                    }
                }
                // (2) real create + real extraction
                if bi % create_mod == 0 {
                    creates.fetch_add(1, Ordering::SeqCst);
                    steps.fetch_add(1, Ordering::SeqCst);
                    let agc = d.join("out.agc");
                    let c = create_lib(&paths, &agc, k, seg, mm, 1);
                    if c.result != "ok" {
                        fail("create", json!({"result": c.result, "msg": c.msg}));
                    } else {
                        let e = extract_lib(&agc);
                        let want_samples: Vec<Vec<u8>> = groups(&recs).iter().map(|g| g[0].sample.clone()).collect();
                        if e.result != "ok" || e.samples != want_samples || e.contigs != recs {
                            fail("extract", json!({"result": e.result, "msg": e.msg,
                                "samples": e.samples.iter().map(|s| String::from_utf8_lossy(s).to_string()).collect::<Vec<_>>(),
                                "contigs": e.contigs.iter().map(rec_json).collect::<Vec<_>>(),
                                "want": recs.iter().map(rec_json).collect::<Vec<_>>()}));
                        }
                        let key = format!("{}|{}", v["recs"], v["key"]);
                        let clash: Option<usize> = {
                            let mut m = shas.lock().unwrap();
                            match m.get(&key) {
                                Some((s, first)) => if *s != c.sha { Some(*first) } else { None },
                                None => {
                                    m.insert(key, (c.sha.clone(), bi));
                                    None
                                }
                            }
                        };
                        if let Some(first) = clash {
                            fail("sha", json!({"sha": c.sha, "first_behaviour": first}));
                        }
                    }
                }
                let _ = std::fs::remove_dir_all(&d);
                Ok(())
            })();
            if let Err(e) = r {
                tool.lock().unwrap().push(format!("behaviour {}: {:#}", bi, e));
            }
        });
    });
    let mut fails = fails.into_inner().unwrap();
    fails.sort_by_key(|f| f["behaviour"].as_u64().unwrap_or(0));
    let nfail = fails.len();
    fails.truncate(40);
    println!(
        "{}",
        json!({"behaviours": lines.len(), "steps": steps.load(Ordering::SeqCst), "creates": creates.load(Ordering::SeqCst),
            "sha_classes": shas.lock().unwrap().len(), "presenter_agree": agree.load(Ordering::SeqCst),
            "cut_kinds": *kinds_seen.lock().unwrap(), "nfail": nfail, "fails": fails, "tool_errors": *tool.lock().unwrap()})
    );
    Ok(())
}

// ------------------------------------------------------------------------------------------------
// TRACE: generated sample sets, many presentations, real create / list / extract, events
// ------------------------------------------------------------------------------------------------
const BOUNDARY_WIDTHS: [usize; 24] = [1, 2, 3, 59, 60, 61, 70, 79, 80, 81, 127, 128, 255, 256, 1023, 1024, 4095, 4096, 8191, 8192, 65535, 65536, 99999, 100000];

fn random_opt(r: &mut StdRng, pansn: bool, layout_single: bool, longest: usize, wide: bool) -> Opt {
    let width = match if wide { r.gen_range(2..12) } else { r.gen_range(0..10) } {
        0 | 1 => 1 + r.gen_range(0..3usize),
        2 | 3 | 4 => {
            // line length incl. the line end at a power-of-two / round number, and the numbers around it
            let w = BOUNDARY_WIDTHS[r.gen_range(0..BOUNDARY_WIDTHS.len())];
            (w + 2 - r.gen_range(0..5usize)).clamp(1, 100000)
        }
        5 => longest.clamp(1, 100000),                    // exactly the longest contig: no wrapping at all
        6 => (longest / 2).clamp(1, 100000),
        10 | 11 => {
            let e = r.gen_range(3.6..5.0f64);            // wide lines: log-uniform over 4000..100000
            (10f64.powf(e) as usize).clamp(1, 100000)
        }
        _ => {
            let e = r.gen_range(0.0..5.0f64);            // log-uniform over 1..100000
            (10f64.powf(e) as usize).clamp(1, 100000)
        }
    };
    let gz = r.gen_bool(0.7);
    let cuts = if !gz {
        Cuts::Offsets(vec![])
    } else {
        match r.gen_range(0..8) {
            0 => Cuts::Offsets(vec![]),
            1 => Cuts::Bgzf { block: [65280usize, 4096, 700][r.gen_range(0..3)] },
            2 => Cuts::Random { seed: r.gen(), n: 1 },
            3 => Cuts::Random { seed: r.gen(), n: 2 },
            4 | 5 => Cuts::Random { seed: r.gen(), n: r.gen_range(3..12) },
            _ => Cuts::Random { seed: r.gen(), n: r.gen_range(12..80) },
        }
    };
    Opt {
        single: layout_single,
        fname_sample: if pansn { r.gen_bool(0.7) } else { true },
        stemext: if r.gen_bool(0.7) { b".fa".to_vec() } else { b".fasta".to_vec() },
        width,
        crlf: r.gen_bool(0.5),
        case: match r.gen_range(0..4) { 0 => CaseMode::Upper, 1 => CaseMode::Lower, _ => CaseMode::MixedRandom(r.gen()) },
        finalnl: r.gen_bool(0.75),
        gz,
        cuts,
        subdirs: r.gen_bool(0.3),
    }
}

fn base_opt(single: bool) -> Opt {
    Opt { single, fname_sample: true, stemext: b".fa".to_vec(), width: 60, crlf: false, case: CaseMode::Upper, finalnl: true, gz: false,
          cuts: Cuts::Offsets(vec![]), subdirs: false }
}

fn extract_event(via: &str, e: &Extracted) -> Value {
    json!({"ev": "extract", "via": via, "result": e.result, "msg": e.msg,
        "samples": e.samples.iter().map(|s| jb(s)).collect::<Vec<_>>(),
        "contigs": e.contigs.iter().map(|c| json!({"sample": jb(&c.sample), "name": jb(&c.header), "len": c.seq.len(), "dig": dig(&c.seq)})).collect::<Vec<_>>()})
}

fn trace(a: &Args) -> Result<()> {
    util::install_panic_hook();
    let dir = PathBuf::from(a.get("dir")?);
    let id = a.get("id")?.to_string();
    let seed = a.num("seed", 1u64);
    let pansn = a.flag("pansn");
    let nrand = a.num("nrandom", 8usize);
    let threads = a.num("threads", 1usize);
    let (k, seg, mm) = (a.num("k", 11usize), a.num("seg", 100usize), a.num("mm", 15usize));
    let cli_every = a.num("cli-every", 0usize);
    let ragc = a.opt("ragc").map(|s| s.to_string());
    let jobs = a.num("jobs", 1usize);
    let go = gen::GenOpts {
        seed,
        kind: a.opt("kind").unwrap_or("basic").to_string(),
        n_samples: a.num("samples", 3usize),
        n_chrom: a.num("chroms", 2usize),
        chrom_len: a.num("len", 1500usize),
        pansn,
    };
    let samples = gen::generate(&go);
    // abstract records; sample names of non-PanSN sets get a dotted, versioned form now and then (file stem rule)
    let dotted = !pansn && seed % 2 == 0;
    let mut recs: Vec<Rec> = vec![];
    for s in &samples {
        let sname = if dotted { format!("GCA_{}.{}", &s.name, 1 + seed % 3) } else { s.name.clone() };
        for (ci, c) in s.contigs.iter().enumerate() {
            if c.seq.is_empty() {
                continue;
            }
            // PanSN headers now and then carry a description after the third field
            let header = if pansn && (seed + ci as u64) % 3 == 0 { format!("{} len={} note", c.name, c.seq.len()) } else { c.name.clone() };
            recs.push(Rec { sample: sname.clone().into_bytes(), header: header.into_bytes(), seq: c.seq.clone() });
        }
    }
    let longest = recs.iter().map(|r| r.seq.len()).max().unwrap_or(1);
    // presentations
    let mut plist: Vec<(String, Opt)> = vec![("base".into(), base_opt(false))];
    if pansn {
        plist.push(("base".into(), base_opt(true)));
    }
    if let Some(p) = a.opt("opts") {
        for line in std::io::BufReader::new(std::fs::File::open(p)?).lines() {
            let line = line?;
            if line.trim().is_empty() {
                continue;
            }
            let v: Value = serde_json::from_str(&line)?;
            let mut o = opt_of(&v)?;
            if !pansn && (o.single || !o.fname_sample) {
                continue;
            }
            if o.width == 0 {
                // the model's "one line": widths of the property are 1..100000
                o.width = longest.clamp(1, 100000);
            }
            plist.push(("tlc".into(), o));
        }
    }
    let mut r = util::rng(seed ^ 0xC19);
    for i in 0..nrand {
        let single = pansn && i % 2 == 1;
        plist.push(("random".into(), random_opt(&mut r, pansn, single, longest, a.flag("wide"))));
    }
    if a.flag("sweep") {
        // line lengths around every power of two 2^6..2^16, without and with the line end:
        // LF with widths 2^n-2 .. 2^n+1 (line + LF = 2^n-1 .. 2^n+2), CR LF with widths 2^n-3 .. 2^n-1 (line + CR LF = 2^n-1 .. 2^n+1)
        let mut i = 0u64;
        for n in 6..=16u32 {
            for (crlf, lo, hi) in [(false, 2isize, -1isize), (true, 3, 1)] {
                let mut d = lo;
                while d >= hi {
                    let w = ((1isize << n) - d) as usize;
                    d -= 1;
                    if w > longest {
                        continue;
                    }
                    let mut o = base_opt(pansn && i % 4 == 3);
                    o.width = w;
                    o.crlf = crlf;
                    o.gz = i % 3 == 1;
                    o.cuts = if i % 6 == 1 { Cuts::Bgzf { block: 65280 } } else { Cuts::Offsets(vec![]) };
                    o.case = if i % 5 == 2 { CaseMode::Lower } else { CaseMode::Upper };
                    plist.push(("sweep".into(), o));
                    i += 1;
                }
            }
        }
    }
    let out_path = a.get("out")?.to_string();
    let mut out = std::io::BufWriter::new(std::fs::File::create(&out_path)?);
    writeln!(out, "{}", json!({"ev": "input", "id": id, "threads": threads, "k": k, "seg": seg, "mm": mm, "pansn": pansn, "ncontigs": recs.len(),
        "records": recs.iter().map(|r| json!({"sample": jb(&r.sample), "header": jb(&r.header), "len": r.seq.len(), "dig": dig(&r.seq)})).collect::<Vec<_>>()}))?;
    let pool = rayon::ThreadPoolBuilder::new().num_threads(jobs).build()?;
    let results: Vec<Result<Vec<Value>>> = pool.install(|| {
        plist
            .par_iter()
            .enumerate()
            .map(|(pi, (src, o))| -> Result<Vec<Value>> {
                let mut evs = vec![];
                let (files, cuts) = present(&recs, o);
                let d = dir.join(format!("p{}", pi));
                let paths = write_files(&d, &files, o.subdirs, seed + pi as u64)?;
                let mut kinds: BTreeMap<&'static str, usize> = BTreeMap::new();
                let mut empty_members = 0usize;
                let mut max_line = 0usize;
                for (fi, f) in files.iter().enumerate() {
                    let t: Vec<u8> = f.members.concat();
                    if fi < 40 || fi + 1 == files.len() {
                        for &c in &cuts[fi] {
                            *kinds.entry(cut_kind(&t, c)).or_insert(0) += 1;
                        }
                    }
                    if f.gz {
                        empty_members += f.members.iter().filter(|m| m.is_empty()).count();
                    }
                    max_line = max_line.max(t.split(|&b| b == b'\n').map(|l| l.len()).max().unwrap_or(0));
                }
                let mut pe = json!({"ev": "present", "pid": pi, "src": src, "opt": opt_json(o),
                    "files": files.iter().map(|f| json!({"name": jb(&f.name), "members": f.members.len(),
                        "bytes": f.members.iter().map(|m| m.len()).sum::<usize>()})).collect::<Vec<_>>(),
                    "subdirs": o.subdirs, "cutkinds": kinds, "empty_members": empty_members, "max_line": max_line,
                    "bgzf": matches!(o.cuts, Cuts::Bgzf { .. })});
                pe["max_members"] = json!(files.iter().map(|f| f.members.len()).max().unwrap_or(0));
                evs.push(pe);
                let agc = d.join("lib.agc");
                let c = create_lib(&paths, &agc, k, seg, mm, threads);
                evs.push(json!({"ev": "create", "via": "lib", "result": c.result, "msg": c.msg, "sha256": c.sha}));
                if c.result == "ok" {
                    evs.push(extract_event("lib", &extract_lib(&agc)));
                }
                let with_cli = ragc.is_some() && cli_every > 0 && (src == "base" || pi % cli_every == 0);
                if with_cli {
                    let rg = ragc.as_ref().unwrap();
                    let agc2 = d.join("cli.agc");
                    let c = create_cli(rg, &paths, &agc2, k, seg, mm, threads, &d)?;
                    evs.push(json!({"ev": "create", "via": "cli", "result": c.result, "msg": c.msg, "sha256": c.sha}));
                    if c.result == "ok" {
                        evs.push(extract_event("cli", &extract_cli(rg, &agc2, &d)?));
                    }
                }
                if !a.flag("keep") {
                    let _ = std::fs::remove_dir_all(&d);
                }
                Ok(evs)
            })
            .collect()
    });
    let mut n = 0;
    for r in results {
        for e in r? {
            writeln!(out, "{}", e)?;
            n += 1;
        }
    }
    out.flush()?;
    println!("{}", json!({"id": id, "events": n, "presentations": plist.len(), "records": recs.len(), "longest": longest,
        "bases": recs.iter().map(|r| r.seq.len()).sum::<usize>()}));
    Ok(())
}
