//! (stub) binding for this area — see DESIGN.md
use crate::util::Args;
use anyhow::Result;

/// Returns None when `cmd` is not one of this module's sub-commands.
pub fn dispatch(cmd: &str, a: &Args) -> Option<Result<()>> {
    let _ = a;
    match cmd {
        _ => None,
    }
}
