//! Binding of spec/Segmentation.tla to ragc_core::segment::{split_at_splitters_with_size,
//! split_at_splitters}.
//!
//! `trace-seg` drives the two real functions over generated (contig, k, splitter set) inputs
//! and records what they returned as NDJSON: one `start` event (the input, k-mers as symbol
//! sequences), one `seg` event per returned segment (data, front/back k-mer unpacked to
//! symbols, MISSING as [99]) and one `end` event.  Nothing is decided here: TLC validates
//! every case against Trace_Segmentation.tla.  The code below only generates inputs, projects
//! u64 k-mers to symbol sequences and writes events.  `replay-seg` executes behaviours printed
//! by the code-shaped model MC_SegScan.tla and reports (informational) whether the real code
//! chose exactly the same boundaries.
use crate::util::{self, Args};
use anyhow::Result;
use ragc_core::segment::{split_at_splitters, split_at_splitters_with_size, Segment, MISSING_KMER};
use rand::rngs::StdRng;
use rand::seq::SliceRandom;
use rand::Rng;
use serde_json::{json, Value};
use std::collections::BTreeSet;
use std::io::{BufRead, Write};

pub fn dispatch(cmd: &str, a: &Args) -> Option<Result<()>> {
    match cmd {
        "trace-seg" => Some(trace(a)),
        "replay-seg" => Some(replay(a)),
        _ => None,
    }
}

/// Builds whatever set type the real API wants (AHashSet<u64>) without naming it.
fn build_set<S: Default + Extend<u64>>(v: &[u64]) -> S {
    let mut s = S::default();
    s.extend(v.iter().copied());
    s
}

/// Projection of a recorded k-mer: MISSING -> [99]; otherwise k symbols + "low bits are zero".
fn proj_kmer(x: u64, k: usize) -> (Vec<u8>, bool) {
    if x == MISSING_KMER {
        (vec![99], true)
    } else {
        util::unpack(x, k as u32)
    }
}

/// Input generation only: canonical form of a clean window, on symbols (lexicographic minimum
/// of the window and its reverse complement).  Used to pick splitter sets that actually occur;
/// whether a k-mer is a splitter occurrence is decided by TLC, not here.
fn canon_syms(w: &[u8]) -> Vec<u8> {
    let rc: Vec<u8> = w.iter().rev().map(|&s| 3 - s).collect();
    if w <= &rc[..] {
        w.to_vec()
    } else {
        rc
    }
}

/// canonical k-mers of all clean windows, with the 1-based end position of each window
fn clean_windows(c: &[u8], k: usize) -> Vec<(usize, Vec<u8>)> {
    let mut out = vec![];
    if k == 0 || c.len() < k {
        return out;
    }
    let mut run = 0usize;
    for (i, &b) in c.iter().enumerate() {
        if b > 3 {
            run = 0;
        } else {
            run += 1;
            if run >= k {
                out.push((i + 1, canon_syms(&c[i + 1 - k..=i])));
            }
        }
    }
    out
}

fn run_real(which: &str, contig: &Vec<u8>, spl: &[u64], k: usize, min_size: usize) -> std::result::Result<Vec<Segment>, String> {
    let c = contig.clone();
    let s: Vec<u64> = spl.to_vec();
    let w = which.to_string();
    util::catch(move || {
        if w == "with_size" {
            split_at_splitters_with_size(&c, &build_set(&s), k, min_size)
        } else {
            split_at_splitters(&c, &build_set(&s), k)
        }
    })
}

struct Writer {
    out: std::io::BufWriter<std::fs::File>,
    case: u64,
    multi: u64,
}

impl Writer {
    /// one case = one call of one real function
    fn case(&mut self, tag: &str, contig: &Vec<u8>, k: usize, spl_syms: &[Vec<u8>], min_size: usize) -> Result<()> {
        let packed: Vec<u64> = spl_syms.iter().map(|w| util::pack(w)).collect();
        for which in ["with_size", "plain"] {
            writeln!(
                self.out,
                "{}",
                json!({"ev": "start", "case": self.case, "fn": which, "tag": tag, "k": k, "contig": contig,
                       "splitters": spl_syms, "min_size": min_size})
            )?;
            self.case += 1;
            match run_real(which, contig, &packed, k, min_size) {
                Ok(segs) => {
                    let n = segs.len();
                    if n > 1 {
                        self.multi += 1;
                    }
                    for (i, s) in segs.iter().enumerate() {
                        let (f, z1) = proj_kmer(s.front_kmer, k);
                        let (b, z2) = proj_kmer(s.back_kmer, k);
                        writeln!(
                            self.out,
                            "{}",
                            json!({"ev": "seg", "i": i, "last": i + 1 == n, "data": s.data, "front": f, "back": b,
                                   "lowzero": z1 && z2, "fdir": s.front_kmer_is_dir, "bdir": s.back_kmer_is_dir})
                        )?;
                    }
                    writeln!(self.out, "{}", json!({"ev": "end", "n": n}))?;
                }
                Err(p) => {
                    writeln!(self.out, "{}", json!({"ev": "panic", "msg": p}))?;
                }
            }
        }
        Ok(())
    }
}

/// all subsets of `items` (bitmask order); items.len() is small
fn subsets(items: &[Vec<u8>]) -> Vec<Vec<Vec<u8>>> {
    let n = items.len();
    (0..(1usize << n))
        .map(|m| (0..n).filter(|i| m >> i & 1 == 1).map(|i| items[i].clone()).collect())
        .collect()
}

fn gen_contig(rng: &mut StdRng, len: usize, style: usize, k: usize) -> Vec<u8> {
    // style 0: uniform ACGT; 1: ACGT + N (1%) ; 2: ACGT + N/IUPAC codes 4..15 (5%);
    // 3: low complexity (homopolymer runs and short-period repeats: adjacent / overlapping
    //    occurrences of the same k-mer); 4: repeats of one random unit of length ~k
    let mut c: Vec<u8> = Vec::with_capacity(len);
    match style {
        3 => {
            while c.len() < len {
                let period = rng.gen_range(1..=3usize);
                let unit: Vec<u8> = (0..period).map(|_| rng.gen_range(0..4)).collect();
                let reps = rng.gen_range(1..=(2 * k + 4));
                for r in 0..reps * period {
                    c.push(unit[r % period]);
                }
                if rng.gen_bool(0.15) {
                    c.push(rng.gen_range(4..16));
                }
            }
            c.truncate(len);
        }
        4 => {
            let ul = rng.gen_range(1..=(k + 2));
            let unit: Vec<u8> = (0..ul).map(|_| rng.gen_range(0..4)).collect();
            for i in 0..len {
                c.push(if rng.gen_bool(0.02) { rng.gen_range(0..16) } else { unit[i % ul] });
            }
        }
        _ => {
            let p = [0.0, 0.01, 0.05][style.min(2)];
            for _ in 0..len {
                c.push(if rng.gen_bool(p) {
                    if style == 1 { 4 } else { rng.gen_range(4..16) }
                } else {
                    rng.gen_range(0..4)
                });
            }
        }
    }
    c
}

fn dedup(v: Vec<Vec<u8>>) -> Vec<Vec<u8>> {
    let s: BTreeSet<Vec<u8>> = v.into_iter().collect();
    s.into_iter().collect()
}

/// TRACE driver.
///  --mode exhaustive --k K --maxlen L [--minlen M]: every contig over {A,C,G,T,N} of length M..L, every
///      subset of its canonical k-mers (+ the empty set), both functions.
///  --mode random --seed S --n N --maxlen L --kmin a --kmax b: random cases (see gen_contig and the
///      splitter-set modes below), both functions.
pub fn trace(a: &Args) -> Result<()> {
    util::install_panic_hook();
    let mode = a.opt("mode").unwrap_or("random").to_string();
    let mut w = Writer { out: std::io::BufWriter::new(std::fs::File::create(a.get("out")?)?), case: 0, multi: 0 };
    if mode == "exhaustive" {
        let k: usize = a.num("k", 2);
        let maxlen: usize = a.num("maxlen", 5);
        let minlen: usize = a.num("minlen", 0);
        let alpha: u64 = a.num("alpha", 5);
        let part: u64 = a.num("part", 0);
        let nparts: u64 = a.num("nparts", 1);
        for len in minlen..=maxlen {
            let total = alpha.pow(len as u32);
            for x in 0..total {
                // multiplicative hash: shards of equal size whatever the alphabet size
                if (x.wrapping_mul(0x9E37_79B9_7F4A_7C15) >> 33) % nparts != part {
                    continue;
                }
                let mut y = x;
                let mut c = vec![0u8; len];
                for i in (0..len).rev() {
                    c[i] = (y % alpha) as u8;
                    y /= alpha;
                }
                let occ = dedup(clean_windows(&c, k).into_iter().map(|(_, w)| w).collect());
                for sp in subsets(&occ) {
                    w.case("exh", &c, k, &sp, 0)?;
                }
            }
        }
    } else if mode == "inputs" {
        // re-execution of stored inputs (replay of a reported case): one start-like record per line
        let f = std::fs::File::open(a.get("in")?)?;
        for line in std::io::BufReader::new(f).lines() {
            let line = line?;
            if line.trim().is_empty() {
                continue;
            }
            let b: Value = serde_json::from_str(&line)?;
            let k = b["k"].as_u64().unwrap() as usize;
            let c = syms(&b["contig"]);
            let sp: Vec<Vec<u8>> = b["splitters"].as_array().map(|x| x.iter().map(syms).collect()).unwrap_or_default();
            let ms = b["min_size"].as_u64().unwrap_or(0) as usize;
            w.case(b["tag"].as_str().unwrap_or("input"), &c, k, &sp, ms)?;
        }
    } else {
        let seed: u64 = a.num("seed", 1);
        let n: usize = a.num("n", 100);
        let maxlen: usize = a.num("maxlen", 600);
        let kmin: usize = a.num("kmin", 1);
        let kmax: usize = a.num("kmax", 32);
        let dense_cap: usize = a.num("densecap", 400);
        let mut rng = util::rng(seed);
        // every shard (offset) walks the k range in a different order and pairs each k with a different contig style
        let offset: usize = a.num("offset", 0);
        let span = kmax - kmin + 1;
        for i in 0..n {
            let k = kmin + (i * 13 + offset * 5) % span;
            let style = (i / span + i + offset) % 5;
            // length classes: around k, a few k, and up to maxlen
            let len = match rng.gen_range(0..10) {
                0 => rng.gen_range(0..=k),
                1 => k + rng.gen_range(0..3),
                2 => 2 * k + rng.gen_range(0..3),
                3 | 4 => rng.gen_range(k..=(6 * k + 8)),
                _ => rng.gen_range(k..=maxlen.max(k + 1)),
            };
            let c = gen_contig(&mut rng, len, style, k);
            let wins = clean_windows(&c, k);
            let all: Vec<Vec<u8>> = dedup(wins.iter().map(|(_, w)| w.clone()).collect());
            let min_size = [0usize, 1, 20, 1000, 1 << 30][rng.gen_range(0..5)];
            // splitter-set modes
            let mut sets: Vec<(&str, Vec<Vec<u8>>)> = vec![("empty", vec![])];
            if !all.is_empty() {
                // sparse: a few k-mers of the contig
                let cnt = 1 + wins.len() / 80;
                let mut sp: Vec<Vec<u8>> = (0..cnt).map(|_| wins[rng.gen_range(0..wins.len())].1.clone()).collect();
                // plus foreign k-mers and non-canonical (reverse complement) entries that must never match
                for _ in 0..3 {
                    let f: Vec<u8> = (0..k).map(|_| rng.gen_range(0..4)).collect();
                    sp.push(canon_syms(&f));
                }
                let rcs: Vec<Vec<u8>> = sp.iter().map(|w| w.iter().rev().map(|&s| 3 - s).collect()).collect();
                for r in rcs {
                    if !(k == 32 && r.iter().all(|&s| s == 3)) && rng.gen_bool(0.3) {
                        sp.push(r);
                    }
                }
                sets.push(("sparse", dedup(sp)));
                // dense: every k-mer of the contig (on a prefix-limited contig to bound TLC's work)
                if c.len() <= dense_cap || i % 7 == 0 {
                    sets.push(("dense", all.clone()));
                } else {
                    let mut half = all.clone();
                    half.shuffle(&mut rng);
                    half.truncate(1 + all.len() / 10);
                    sets.push(("tenth", dedup(half)));
                }
                // tail: k-mers whose window ends inside the last k bases (incl. the very last window)
                let tail: Vec<Vec<u8>> = wins.iter().filter(|(e, _)| e + k > c.len()).map(|(_, w)| w.clone()).collect();
                if !tail.is_empty() {
                    let mut t = vec![tail[tail.len() - 1].clone()];
                    if rng.gen_bool(0.5) {
                        t.push(tail[rng.gen_range(0..tail.len())].clone());
                    }
                    if rng.gen_bool(0.5) {
                        t.push(wins[rng.gen_range(0..wins.len())].1.clone());
                    }
                    sets.push(("tail", dedup(t)));
                }
                // adjacent: the k-mers of 2..4 consecutive windows (overlapping occurrences)
                let j = rng.gen_range(0..wins.len());
                let adj: Vec<Vec<u8>> = wins[j..(j + rng.gen_range(2..5)).min(wins.len())].iter().map(|(_, w)| w.clone()).collect();
                sets.push(("adjacent", dedup(adj)));
                // head: the first window(s) of the contig
                sets.push(("head", dedup(wins[..wins.len().min(2)].iter().map(|(_, w)| w.clone()).collect())));
            } else {
                let f: Vec<u8> = (0..k).map(|_| rng.gen_range(0..4)).collect();
                sets.push(("foreign", vec![canon_syms(&f)]));
            }
            for (tag, sp) in sets {
                w.case(tag, &c, k, &sp, min_size)?;
            }
        }
    }
    w.out.flush()?;
    println!("{}", json!({"cases": w.case, "multi": w.multi}));
    Ok(())
}

fn syms(v: &Value) -> Vec<u8> {
    v.as_array().map(|a| a.iter().map(|x| x.as_u64().unwrap() as u8).collect()).unwrap_or_default()
}

/// REPLAY of the code-shaped model (MC_SegScan.tla): each line is one complete behaviour
/// {contig,k,splitters,restart,segs:[{data,front,back}]}; the real function named by `restart`
/// (TRUE = split_at_splitters_with_size, FALSE = split_at_splitters) is executed on the same
/// input and the projected result compared field by field.
pub fn replay(a: &Args) -> Result<()> {
    util::install_panic_hook();
    let f = std::fs::File::open(a.get("in")?)?;
    let mut n = 0u64;
    let mut steps = 0u64;
    let mut fails: Vec<Value> = vec![];
    for line in std::io::BufReader::new(f).lines() {
        let line = line?;
        if line.trim().is_empty() {
            continue;
        }
        let b: Value = serde_json::from_str(&line)?;
        n += 1;
        let k = b["k"].as_u64().unwrap() as usize;
        let contig = syms(&b["contig"]);
        let spl: Vec<u64> = b["splitters"].as_array().map(|x| x.iter().map(|w| util::pack(&syms(w))).collect()).unwrap_or_default();
        let which = if b["restart"].as_bool().unwrap() { "with_size" } else { "plain" };
        let want: Vec<(Vec<u8>, Vec<u8>, Vec<u8>)> = b["segs"]
            .as_array()
            .map(|x| x.iter().map(|s| (syms(&s["data"]), syms(&s["front"]), syms(&s["back"]))).collect())
            .unwrap_or_default();
        steps += want.len() as u64;
        match run_real(which, &contig, &spl, k, 0) {
            Ok(segs) => {
                let got: Vec<(Vec<u8>, Vec<u8>, Vec<u8>)> =
                    segs.iter().map(|s| (s.data.clone(), proj_kmer(s.front_kmer, k).0, proj_kmer(s.back_kmer, k).0)).collect();
                let z = segs.iter().all(|s| proj_kmer(s.front_kmer, k).1 && proj_kmer(s.back_kmer, k).1);
                if got != want || !z {
                    if fails.len() < 20 {
                        fails.push(json!({"behaviour": b, "fn": which,
                            "real": got.iter().map(|(d, f, bk)| json!({"data": d, "front": f, "back": bk})).collect::<Vec<_>>()}));
                    } else {
                        fails.push(json!({"fn": which}));
                    }
                }
            }
            Err(p) => fails.push(json!({"panic": p, "behaviour": b, "fn": which})),
        }
    }
    println!("{}", json!({"behaviours": n, "steps": steps, "fails": fails}));
    Ok(())
}
