use anyhow::{anyhow, Result};
use rand::rngs::StdRng;
use rand::SeedableRng;
use std::collections::HashMap;

/// `--key value` argument bag.
pub struct Args {
    m: HashMap<String, String>,
}
impl Args {
    pub fn new(a: &[String]) -> Self {
        let mut m = HashMap::new();
        let mut i = 0;
        while i < a.len() {
            if let Some(k) = a[i].strip_prefix("--") {
                if i + 1 < a.len() && !a[i + 1].starts_with("--") {
                    m.insert(k.to_string(), a[i + 1].clone());
                    i += 2;
                } else {
                    m.insert(k.to_string(), "true".to_string());
                    i += 1;
                }
            } else {
                i += 1;
            }
        }
        Args { m }
    }
    pub fn get(&self, k: &str) -> Result<&str> {
        self.m.get(k).map(|s| s.as_str()).ok_or_else(|| anyhow!("missing --{}", k))
    }
    pub fn opt(&self, k: &str) -> Option<&str> {
        self.m.get(k).map(|s| s.as_str())
    }
    pub fn num<T: std::str::FromStr>(&self, k: &str, d: T) -> T {
        self.m.get(k).and_then(|s| s.parse().ok()).unwrap_or(d)
    }
    pub fn flag(&self, k: &str) -> bool {
        self.m.contains_key(k)
    }
}

pub fn rng(seed: u64) -> StdRng {
    StdRng::seed_from_u64(seed)
}

/// Projection u64 (left-aligned 2-bit packing) -> n symbols + "all lower bits are zero".
pub fn unpack(x: u64, n: u32) -> (Vec<u8>, bool) {
    let mut v = Vec::with_capacity(n as usize);
    for i in 0..n {
        v.push(((x >> (62 - 2 * i)) & 3) as u8);
    }
    let low_zero = if n >= 32 { true } else { (x << (2 * n)) == 0 };
    (v, low_zero)
}

pub fn pack(w: &[u8]) -> u64 {
    let mut x = 0u64;
    for (i, &s) in w.iter().enumerate() {
        x |= (s as u64 & 3) << (62 - 2 * i);
    }
    x
}

/// Run a closure, turning a panic into data (message + location).
pub fn catch<T>(f: impl FnOnce() -> T + std::panic::UnwindSafe) -> std::result::Result<T, String> {
    match std::panic::catch_unwind(f) {
        Ok(v) => Ok(v),
        Err(e) => {
            let msg = if let Some(s) = e.downcast_ref::<&str>() {
                s.to_string()
            } else if let Some(s) = e.downcast_ref::<String>() {
                s.clone()
            } else {
                "panic".to_string()
            };
            let loc = LAST_PANIC_LOC.with(|l| l.borrow().clone());
            Err(format!("{} @ {}", msg, loc))
        }
    }
}

thread_local! {
    pub static LAST_PANIC_LOC: std::cell::RefCell<String> = std::cell::RefCell::new(String::new());
}

/// Install a quiet panic hook that records the location for `catch`.
pub fn install_panic_hook() {
    std::panic::set_hook(Box::new(|info| {
        let loc = info.location().map(|l| format!("{}:{}", l.file(), l.line())).unwrap_or_default();
        LAST_PANIC_LOC.with(|l| *l.borrow_mut() = loc);
    }));
}

pub fn sha256_hex(b: &[u8]) -> String {
    use sha2::{Digest, Sha256};
    let mut h = Sha256::new();
    h.update(b);
    let d = h.finalize();
    d.iter().map(|x| format!("{:02x}", x)).collect()
}
