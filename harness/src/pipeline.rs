//! Binding of spec/Pipeline.tla to the real streaming pipeline (agc_compressor.rs +
//! memory_bounded_queue.rs): runs `create` in-process (the CLI's call sequence) with the
//! cfg(ragc_verif) hooks recording one event per specification action, optionally perturbing the
//! schedule at the yield points, and writes the events as an NDJSON trace for Trace_Pipeline.tla.
//!
//! Post-processing is limited to joins that program order makes certain: an item's key logged by a
//! thread immediately before its own queue call is attached to the queue event (emitted under the
//! queue mutex) of the same thread; no cross-thread ordering other than the global sequence
//! number (taken under the queue mutex for queue events) is used.
use crate::archive::{create_like_cli, CreateOpts};
use crate::util::{self, Args};
use anyhow::Result;
use ragc_common::verif::{self, Event};
use rand::Rng;
use serde_json::{json, Value};
use std::collections::HashMap;
use std::io::Write;
use std::sync::atomic::{AtomicU64, Ordering};
use std::sync::{Arc, Mutex};

pub fn dispatch(cmd: &str, a: &Args) -> Option<Result<()>> {
    match cmd {
        "drive-pipeline" => Some(drive(a)),
        _ => None,
    }
}

/// Activity of the other threads of this process: (any thread in uninterruptible I/O wait, total CPU ticks consumed so far).
/// A thread that is merely RUNNABLE is not counted as such (on a loaded machine a polling loop that wakes every 10 ms is
/// "runnable" most of the time while it waits for a CPU); what counts is the CPU time actually consumed: working threads burn
/// whole ticks, a sleeping poll loop about 0.2 % of one.
fn other_threads_activity() -> (bool, u64) {
    let me = unsafe { libc::syscall(libc::SYS_gettid) } as i64;
    let mut in_io = false;
    let mut ticks = 0u64;
    if let Ok(rd) = std::fs::read_dir("/proc/self/task") {
        for e in rd.flatten() {
            let tid: i64 = e.file_name().to_string_lossy().parse().unwrap_or(0);
            if tid == me {
                continue;
            }
            if let Ok(st) = std::fs::read_to_string(e.path().join("stat")) {
                // state is the field after the last ')'; utime and stime are the 12th and 13th fields after it
                if let Some(p) = st.rfind(')') {
                    let f: Vec<&str> = st[p + 1..].split_whitespace().collect();
                    if f.first().map(|x| *x == "D").unwrap_or(false) {
                        in_io = true;
                    }
                    if f.len() > 12 {
                        ticks += f[11].parse::<u64>().unwrap_or(0) + f[12].parse::<u64>().unwrap_or(0);
                    }
                }
            }
        }
    }
    (in_io, ticks)
}

fn num(e: &Event, k: &str) -> i64 {
    e.nums.iter().find(|(n, _)| *n == k).map(|x| x.1).unwrap_or(-1)
}
fn text<'a>(e: &'a Event, k: &str) -> &'a str {
    e.text.iter().find(|(n, _)| *n == k).map(|x| x.1.as_str()).unwrap_or("")
}

fn drive(a: &Args) -> Result<()> {
    util::install_panic_hook();
    let o = CreateOpts::from_args(a)?;
    let perturb: u64 = a.num("perturb", 0u64);
    let stall_secs: u64 = a.num("stall-secs", 60u64);
    let events: Arc<Mutex<Vec<Event>>> = Arc::new(Mutex::new(Vec::new()));
    let last_progress = Arc::new(AtomicU64::new(0));
    let t0 = std::time::Instant::now();
    {
        let ev = events.clone();
        let lp = last_progress.clone();
        verif::install(Some(Arc::new(move |e: Event| {
            lp.store(t0.elapsed().as_millis() as u64, Ordering::Relaxed);
            ev.lock().unwrap().push(e);
        })));
    }
    if perturb != 0 {
        let ctr = Arc::new(AtomicU64::new(0));
        verif::install_scheduler(Some(Arc::new(move |site: &'static str| {
            let n = ctr.fetch_add(1, Ordering::Relaxed);
            let mut r = util::rng(perturb ^ (verif::thread_id() << 32) ^ n ^ (site.len() as u64) << 20);
            match r.gen_range(0..10) {
                0..=3 => {}
                4..=6 => std::thread::yield_now(),
                7..=8 => std::thread::sleep(std::time::Duration::from_micros(r.gen_range(50..1500))),
                _ => std::thread::sleep(std::time::Duration::from_millis(r.gen_range(2..12))),
            }
        })));
    }
    // run create on its own thread; the main thread is the watchdog
    let (tx, rx) = std::sync::mpsc::channel();
    let o2 = o.clone();
    std::thread::spawn(move || {
        let r = util::catch(std::panic::AssertUnwindSafe(|| create_like_cli(&o2)));
        let _ = tx.send(r);
    });
    let mut stalled = false;
    let mut cpu_hist: std::collections::VecDeque<(u64, u64)> = std::collections::VecDeque::new();
    let result = loop {
        match rx.recv_timeout(std::time::Duration::from_millis(200)) {
            Ok(r) => break Some(r),
            Err(std::sync::mpsc::RecvTimeoutError::Timeout) => {
                // progress = a hook event, or any other thread of this process in I/O or CONSUMING CPU
                // (finalize compresses metadata without emitting events). A stuck pipeline has every thread asleep
                // or polling with sleeps (drain / sync_and_flush wait loops), which consumes next to nothing.
                // (window of 5 s; >= 10 ticks = 100 ms of CPU in it, i.e. 2 % of one core, is work - a poll loop stays far below)
                let (in_io, ticks) = other_threads_activity();
                let now_ms = t0.elapsed().as_millis() as u64;
                cpu_hist.push_back((now_ms, ticks));
                while cpu_hist.front().map(|x| now_ms - x.0 > 5000).unwrap_or(false) && cpu_hist.len() > 1 {
                    cpu_hist.pop_front();
                }
                let burned = ticks.saturating_sub(cpu_hist.front().map(|x| x.1).unwrap_or(ticks));
                if in_io || burned >= 10 {
                    last_progress.store(now_ms, Ordering::Relaxed);
                }
                let idle = (t0.elapsed().as_millis() as u64).saturating_sub(last_progress.load(Ordering::Relaxed));
                if idle > stall_secs * 1000 {
                    stalled = true;
                    break None;
                }
            }
            Err(_) => break None,
        }
    };
    verif::install(None);
    verif::install_scheduler(None);
    let (class, msg) = match &result {
        Some(Ok(Ok(()))) => ("ok", String::new()),
        Some(Ok(Err(e))) => ("err", format!("{:#}", e)),
        Some(Err(p)) => ("panic", p.clone()),
        None => ("stalled", String::new()),
    };
    let sha = if class == "ok" { std::fs::read(&o.out).map(|b| util::sha256_hex(&b)).unwrap_or_default() } else { String::new() };

    // ---- post-processing into specification-level events -------------------------------------
    let mut evs = events.lock().unwrap().clone();
    evs.sort_by_key(|e| e.seq);
    // contig identity: push order index (1-based) by (sample, contig)
    let mut contig_idx: HashMap<(String, String), usize> = HashMap::new();
    let mut seq_idx: HashMap<i64, usize> = HashMap::new();
    let mut contigs: Vec<Value> = vec![];
    let mut sample_ids: HashMap<String, usize> = HashMap::new();
    for e in evs.iter().filter(|e| e.kind == "p_contig") {
        let s = text(e, "sample").to_string();
        let c = text(e, "contig").to_string();
        let n = sample_ids.len() + 1;
        let sid = *sample_ids.entry(s.clone()).or_insert(n);
        contigs.push(json!({"sample": sid, "size": num(e, "cost")}));
        contig_idx.insert((s, c), contigs.len());
        seq_idx.insert(num(e, "seq"), contigs.len());
    }
    // worker id of a thread
    let mut tid_w: HashMap<u64, i64> = HashMap::new();
    for e in &evs {
        if e.kind.starts_with("w_") {
            tid_w.insert(e.tid, num(e, "w"));
        }
    }
    let mut pending: HashMap<u64, Event> = HashMap::new(); // last p_contig / p_token of a thread
    let mut ticket_item: HashMap<i64, Value> = HashMap::new();
    let mut out: Vec<Value> = vec![];
    let imax = i32::MAX as i64;
    let mut pos_of_take: HashMap<u64, usize> = HashMap::new();
    for e in &evs {
        match e.kind {
            "p_contig" | "p_token" => {
                pending.insert(e.tid, e.clone());
            }
            "admit" => {
                if let Some(p) = pending.remove(&e.tid) {
                    let item = if p.kind == "p_contig" {
                        json!({"ev": "PushContig", "i": seq_idx[&num(&p, "seq")], "dprio": imax - num(&p, "prio"), "cost": num(&p, "cost"),
                               "qseq": num(&p, "seq"), "cur": num(e, "cur"), "len": num(e, "len")})
                    } else {
                        let why = ["pack", "flush", "final"][num(&p, "why") as usize];
                        json!({"ev": "PushToken", "why": why, "dprio": imax - num(&p, "prio"), "low": num(&p, "prio") == 1_000_000,
                               "qseq": num(&p, "seq"), "cur": num(e, "cur"), "len": num(e, "len")})
                    };
                    ticket_item.insert(num(e, "ticket"), item.clone());
                    out.push(item);
                }
            }
            "push_wait" => out.push(json!({"ev": "PushWait", "size": num(e, "size"), "cur": num(e, "cur"), "len": num(e, "len")})),
            "take" => {
                let it = ticket_item.get(&num(e, "ticket")).cloned().unwrap_or(json!({}));
                let kind = if it["ev"] == "PushContig" { "c" } else { "t" };
                pos_of_take.insert(e.tid, out.len());
                out.push(json!({"ev": "Pull", "w": -1, "kind": kind, "i": it.get("i").cloned().unwrap_or(json!(0)), "cur": num(e, "cur"), "len": num(e, "len")}));
            }
            "w_pulled" => {
                // attach the worker id to this thread's preceding take
                if let Some(p) = pos_of_take.remove(&e.tid) {
                    out[p]["w"] = json!(num(e, "w"));
                }
            }
            "eos" => out.push(json!({"ev": "Eos", "w": tid_w.get(&e.tid).copied().unwrap_or(-1)})),
            "close" => out.push(json!({"ev": "Close"})),
            "p_wait_done" => out.push(json!({"ev": "Wait", "why": if num(e, "why") == 0 { "drain" } else { "flush" }})),
            "p_joined" => out.push(json!({"ev": "Joined"})),
            "w_segmented" => out.push(json!({"ev": "Segmented", "w": num(e, "w"), "i": seq_idx.get(&num(e, "seq")).copied().unwrap_or(0)})),
            "w_arrive" => out.push(json!({"ev": "Arrive", "w": num(e, "w"), "b": num(e, "b")})),
            "w_leave" => out.push(json!({"ev": "Leave", "w": num(e, "w"), "b": num(e, "b")})),
            "w_classify" => {
                let mut ids: Vec<usize> = text(e, "batch")
                    .split('\n')
                    .filter(|s| !s.is_empty())
                    .map(|s| {
                        let mut it = s.splitn(2, '\t');
                        let a = it.next().unwrap_or("").to_string();
                        let b = it.next().unwrap_or("").to_string();
                        contig_idx.get(&(a, b)).copied().unwrap_or(0)
                    })
                    .collect();
                ids.sort();
                out.push(json!({"ev": "Classify", "w": num(e, "w"), "batch": ids}));
            }
            "w_exit" => out.push(json!({"ev": "Exit", "w": num(e, "w")})),
            _ => {}
        }
    }
    // a take whose w_pulled never came (stalled run): resolve through the thread table
    for v in out.iter_mut() {
        if v["ev"] == "Pull" && v["w"] == json!(-1) {
            v["w"] = json!(-2);
        }
    }
    let mode = if o.files.len() == 1 { "single" } else { "multi" };
    let mut f = std::io::BufWriter::new(std::fs::File::create(a.get("trace")?)?);
    writeln!(f, "{}", json!({"ev": "Header", "n": o.threads, "mode": mode, "pack": o.pack_size, "cap": o.queue_capacity.min(2_000_000_000),
        "contigs": contigs, "result": class, "msg": msg, "sha": sha, "stalled": stalled, "id": a.opt("id").unwrap_or("")}))?;
    for v in &out {
        writeln!(f, "{}", v)?;
    }
    f.flush()?;
    println!("{}", json!({"result": class, "msg": msg, "sha256": sha, "events": out.len(), "stalled": stalled, "contigs": contigs.len()}));
    if stalled {
        // worker threads may be blocked forever: leave without joining them
        std::process::exit(0);
    }
    Ok(())
}
