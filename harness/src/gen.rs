//! Seeded generator of sample collections (the common input space of C01 C02 C04 C07 C16 C18 C19)
//! and of their FASTA presentations. The abstract case is written as JSON (`case.json`):
//!   {"params":{k,segment_size,min_match,threads,...}, "samples":[{"name","contigs":[{"name","seq":[codes]}]}]}
//! Symbol codes: 0..3 ACGT, 4 N, 5..15 the other IUPAC codes (CNV order A C G T N R Y S W K M B D H V U).
use crate::util::{self, Args};
use anyhow::Result;
use rand::rngs::StdRng;
use rand::Rng;
use serde_json::{json, Value};
use std::io::Write;

pub const CODE2CHAR: [u8; 16] = *b"ACGTNRYSWKMBDHVU";

pub fn dispatch(cmd: &str, a: &Args) -> Option<Result<()>> {
    match cmd {
        "gen-case" => Some(cmd_gen(a)),
        _ => None,
    }
}

#[derive(Clone)]
pub struct Contig {
    pub name: String,
    pub seq: Vec<u8>,
}
#[derive(Clone)]
pub struct Sample {
    pub name: String,
    pub contigs: Vec<Contig>,
}

fn rand_seq(r: &mut StdRng, n: usize) -> Vec<u8> {
    (0..n).map(|_| r.gen_range(0..4u8)).collect()
}

pub fn rc(s: &[u8]) -> Vec<u8> {
    s.iter().rev().map(|&c| if c < 4 { 3 - c } else { c }).collect()
}

/// Mutate a sequence: SNPs, indels, N-runs, IUPAC codes, block duplication.
fn mutate(r: &mut StdRng, s: &[u8], snp: f64, indel: f64, nrun: f64, iupac: f64) -> Vec<u8> {
    let mut out = Vec::with_capacity(s.len() + 16);
    let mut i = 0;
    while i < s.len() {
        let x: f64 = r.gen();
        if x < snp {
            out.push((s[i] + r.gen_range(1..4u8)) % 4);
            i += 1;
        } else if x < snp + indel {
            if r.gen_bool(0.5) {
                // insertion of 1..6 bases
                for _ in 0..r.gen_range(1..7) {
                    out.push(r.gen_range(0..4u8));
                }
            } else {
                i += r.gen_range(1..7usize).min(s.len() - i);
            }
        } else if x < snp + indel + nrun {
            let l = [1usize, 2, 3, 4, 5, 6, 10, 25, 40][r.gen_range(0..9)];
            for _ in 0..l {
                out.push(4);
            }
            i += l.min(s.len() - i);
        } else if x < snp + indel + nrun + iupac {
            out.push(r.gen_range(5..16u8));
            i += 1;
        } else {
            out.push(s[i]);
            i += 1;
        }
    }
    out
}

pub struct GenOpts {
    pub seed: u64,
    pub kind: String,
    pub n_samples: usize,
    pub n_chrom: usize,
    pub chrom_len: usize,
    pub pansn: bool,
}

/// Kinds:
///  basic      – reference + variants at mixed divergence
///  rc         – some contigs are whole-contig reverse complements of the reference's
///  dup        – identical contigs / identical samples (dedup, same-as-reference)
///  iupac      – IUPAC codes and N-runs at elevated rates
///  short      – contigs shorter than k, 1-base contigs, orphan contigs (raw groups)
///  trunc      – contigs that are exact prefixes / suffixes / extensions of the reference's contigs
///  reorder    – contigs absent / extra / reordered per sample
///  manysamples– > 50 samples of small contigs (several metadata batches; > 50 entries per group)
///  manyorphans– > 800 tiny novel contigs (raw groups with several packs)
///  tandem     – reference with alternating ordinary and tandem-repeat blocks (period 4..20): low-complexity reference segments are
///               stored plain (repetitiveness >= 1/2), ordinary ones tuple-packed, in the same compression round
pub fn generate(o: &GenOpts) -> Vec<Sample> {
    let mut r = util::rng(o.seed);
    let mut base: Vec<Vec<u8>> = (0..o.n_chrom)
        .map(|_| {
            let l = (o.chrom_len as f64 * r.gen_range(0.5..1.5)) as usize;
            rand_seq(&mut r, l.max(1))
        })
        .collect();
    if o.kind == "tandem" {
        for b in base.iter_mut() {
            let total = b.len();
            let mut q: Vec<u8> = Vec::with_capacity(total);
            let mut ordinary = true;
            while q.len() < total {
                let blk = r.gen_range(150..420usize);
                if ordinary {
                    q.extend(rand_seq(&mut r, blk));
                } else {
                    let unit = { let n = r.gen_range(4..=20usize); rand_seq(&mut r, n) };
                    for j in 0..blk {
                        q.push(unit[j % unit.len()]);
                    }
                }
                ordinary = !ordinary;
            }
            q.truncate(total);
            *b = q;
        }
    }
    // make the reference itself slightly repetitive: copy a block inside chromosome 0
    if base[0].len() > 400 && r.gen_bool(0.5) {
        let blk: Vec<u8> = base[0][50..250].to_vec();
        let at = base[0].len() / 2;
        let tail = base[0].split_off(at);
        base[0].extend_from_slice(&blk);
        base[0].extend_from_slice(&tail);
    }
    let mut samples: Vec<Sample> = Vec::new();
    let cname = |o: &GenOpts, s: &str, c: usize, desc: bool| -> String {
        if o.pansn {
            format!("{}#chr{}", s, c + 1)
        } else if desc {
            format!("chr{} len=x  desc\tfield {}", c + 1, c)
        } else {
            format!("chr{}", c + 1)
        }
    };
    let sname = |o: &GenOpts, i: usize| -> String {
        if o.pansn {
            format!("smp{:03}#{}", i, i % 2)
        } else {
            format!("smp{:03}", i)
        }
    };
    for i in 0..o.n_samples {
        let sn = sname(o, i);
        let mut contigs: Vec<Contig> = Vec::new();
        for (c, b) in base.iter().enumerate() {
            let desc = !o.pansn && (o.seed + c as u64) % 3 == 0;
            let name = cname(o, &sn, c, desc);
            // manysamples: a few late samples are exact copies of the sample two places earlier, so that a group whose first pack
            // (50 deltas) is already complete receives a delta that is byte-identical to one sitting in its open second pack
            let copy_of = if o.kind == "manysamples" && i >= 80 && i % 3 == 2 { Some(i - 2) } else { None };
            let mut seq = if i == 0 {
                b.clone()
            } else if let Some(j) = copy_of.filter(|&j| c < samples[j].contigs.len()) {
                samples[j].contigs[c].seq.clone()
            } else if o.kind == "manysamples" {
                // exactly one substitution in every 40-base window, at a position and with a base that depend on the sample: any two of
                // the first 93 samples differ in every window (so all their deltas are distinct), while ~3/4 of the k-mers survive in each
                // sample - with >= 100 samples the reference's groups collect > 50 distinct deltas (two packs)
                let mut q = b.clone();
                let mut w = 0usize;
                while w * 40 < q.len() {
                    let pos = w * 40 + 4 + (i * 7 + w * 13) % 31;
                    if pos < q.len() && q[pos] < 4 {
                        q[pos] = (q[pos] + 1 + ((i / 31) % 3) as u8) % 4;
                    }
                    w += 1;
                }
                q
            } else {
                let (snp, indel, nrun, iu) = match o.kind.as_str() {
                    "dup" | "trunc" => (0.0, 0.0, 0.0, 0.0),
                    "iupac" => (0.01, 0.002, 0.004, 0.01),
                    "manysamples" => (if i % 7 == 0 { 0.012 } else { 0.08 }, 0.0005, 0.0, 0.0), // nearly every segment differs from the reference and from the others: with >= 60 samples a group collects > 50 distinct deltas (>= 2 packs)
                    _ => {
                        let d = [0.0, 0.002, 0.01, 0.03, 0.10][(i + c) % 5];
                        (d, d / 5.0, if (i + c) % 3 == 0 { 0.002 } else { 0.0 }, if (i + c) % 4 == 0 { 0.003 } else { 0.0 })
                    }
                };
                // iupac: later samples are derived from the REFERENCE SAMPLE's contig (which carries N runs and IUPAC codes), so that
                // reference and target share N runs with substitutions close by, not from the clean base sequence
                let src: Vec<u8> = if o.kind == "iupac" && c < samples[0].contigs.len() { samples[0].contigs[c].seq.clone() } else { b.clone() };
                mutate(&mut r, &src, snp, indel, nrun, iu)
            };
            if i == 0 && o.kind == "iupac" {
                seq = mutate(&mut r, b, 0.0, 0.0, 0.003, 0.006);
            }
            if o.kind == "iupac" && c % 3 != 0 {
                // symbol palettes per contig, so that segments exist whose LARGEST code sits exactly on a packing boundary:
                // contig 1: nothing above 6 (Y), contig 2: nothing above 5 (R); contig 0 keeps all of 5..15
                let top = if c % 3 == 1 { 6u8 } else { 5u8 };
                for (j, x) in seq.iter_mut().enumerate() {
                    if *x > top && *x < 16 {
                        *x = if top == 6 && j % 2 == 0 { 6 } else { 5 };
                    }
                }
            }
            if i > 0 && (o.kind == "rc" || (o.kind == "basic" && (i + c) % 4 == 1)) && r.gen_bool(0.6) {
                seq = rc(&seq);
            }
            contigs.push(Contig { name, seq });
        }
        if i > 0 && o.kind == "dup" && i % 2 == 0 && !contigs.is_empty() {
            // one extra contig that is an exact copy of another one, and one mutated copy
            let c0 = contigs[0].seq.clone();
            contigs.push(Contig { name: cname(o, &sn, 90, false), seq: c0.clone() });
            contigs.push(Contig { name: cname(o, &sn, 91, false), seq: mutate(&mut r, &c0, 0.01, 0.0, 0.0, 0.0) });
        }
        if o.kind == "trunc" && i > 0 {
            // exact truncations of reference contigs (end earlier / start later / both), and an exact
            // extension: the terminal segment of such a contig is a proper prefix/suffix of the reference's
            for (c, b) in base.iter().enumerate() {
                let n = b.len();
                let cut = 40 + 37 * i + 11 * c;
                if n > 3 * cut {
                    let seq = match (i + c) % 4 {
                        0 => b[..n - cut].to_vec(),
                        1 => b[cut..].to_vec(),
                        2 => b[cut / 2..n - cut].to_vec(),
                        _ => { let mut e = b.clone(); e.extend(rand_seq(&mut r, cut)); e }
                    };
                    contigs[c] = Contig { name: contigs[c].name.clone(), seq: if (i + c) % 5 == 4 { rc(&seq) } else { seq } };
                }
            }
        }
        if o.kind == "short" {
            for (j, l) in [1usize, 2, 5, 8, 13, 30].iter().enumerate() {
                contigs.push(Contig { name: cname(o, &sn, 50 + j, false), seq: rand_seq(&mut r, *l) });
            }
            // orphan contig without any splitter of the reference
            contigs.push(Contig { name: cname(o, &sn, 70, false), seq: rand_seq(&mut r, 300 + 10 * i) });
            // short contigs of N / IUPAC only
            contigs.push(Contig { name: cname(o, &sn, 71, false), seq: vec![4; 7] });
        }
        if o.kind == "reorder" && i > 0 {
            if i % 2 == 1 && contigs.len() > 1 {
                contigs.remove(0);
            }
            if i % 3 == 0 {
                contigs.reverse();
            }
            if i % 2 == 0 {
                contigs.push(Contig { name: cname(o, &sn, 80, false), seq: rand_seq(&mut r, 700) });
            }
        }
        if o.kind == "manyorphans" && i == o.n_samples - 1 {
            for j in 0..(16 * 50 + 40) {
                contigs.push(Contig { name: cname(o, &sn, 1000 + j, false), seq: rand_seq(&mut r, 6 + j % 5) });   // 6..10 bases (< k = 11: no k-mer, raw groups), long enough to be pairwise distinct: every raw group gets >= 49 distinct entries (its first pack fills)
            }
        }
        samples.push(Sample { name: sn, contigs });
    }
    samples
}

pub fn to_json(samples: &[Sample]) -> Value {
    Value::Array(
        samples
            .iter()
            .map(|s| {
                json!({"name": s.name, "contigs": s.contigs.iter().map(|c| json!({"name": c.name, "seq": c.seq})).collect::<Vec<_>>()})
            })
            .collect(),
    )
}

pub fn from_json(v: &Value) -> Vec<Sample> {
    v.as_array()
        .unwrap()
        .iter()
        .map(|s| Sample {
            name: s["name"].as_str().unwrap().to_string(),
            contigs: s["contigs"]
                .as_array()
                .unwrap()
                .iter()
                .map(|c| Contig {
                    name: c["name"].as_str().unwrap().to_string(),
                    seq: c["seq"].as_array().unwrap().iter().map(|x| x.as_u64().unwrap() as u8).collect(),
                })
                .collect(),
        })
        .collect()
}

/// Presentation options for FASTA text.
#[derive(Clone)]
pub struct Present {
    pub width: usize,   // line width (0 = single line)
    pub crlf: bool,
    pub case: u8,       // 0 upper, 1 lower, 2 mixed
    pub final_newline: bool,
}
impl Default for Present {
    fn default() -> Self {
        Present { width: 60, crlf: false, case: 0, final_newline: true }
    }
}

pub fn fasta_text(contigs: &[Contig], p: &Present, seed: u64) -> Vec<u8> {
    let mut r = util::rng(seed ^ 0x5151);
    let nl: &[u8] = if p.crlf { b"\r\n" } else { b"\n" };
    let mut out = Vec::new();
    for (ci, c) in contigs.iter().enumerate() {
        out.push(b'>');
        out.extend_from_slice(c.name.as_bytes());
        out.extend_from_slice(nl);
        let w = if p.width == 0 { c.seq.len().max(1) } else { p.width };
        for (li, chunk) in c.seq.chunks(w).enumerate() {
            for &code in chunk {
                let ch = CODE2CHAR[code as usize];
                let ch = match p.case {
                    1 => ch.to_ascii_lowercase(),
                    2 => if r.gen_bool(0.5) { ch.to_ascii_lowercase() } else { ch },
                    _ => ch,
                };
                out.push(ch);
            }
            let last = ci + 1 == contigs.len() && (li + 1) * w >= c.seq.len();
            if !last || p.final_newline {
                out.extend_from_slice(nl);
            }
        }
    }
    out
}

/// Write one file per sample (`<dir>/<sample>.fa`) or a single PanSN file (`<dir>/pansn.fa`).
pub fn write_files(dir: &str, samples: &[Sample], pansn_single: bool, p: &Present, seed: u64) -> Result<Vec<String>> {
    std::fs::create_dir_all(dir)?;
    let mut paths = vec![];
    if pansn_single {
        let path = format!("{}/pansn.fa", dir);
        let mut f = std::fs::File::create(&path)?;
        for s in samples {
            f.write_all(&fasta_text(&s.contigs, p, seed))?;
        }
        paths.push(path);
    } else {
        for s in samples {
            let path = format!("{}/{}.fa", dir, s.name);
            std::fs::write(&path, fasta_text(&s.contigs, p, seed))?;
            paths.push(path);
        }
    }
    Ok(paths)
}

fn cmd_gen(a: &Args) -> Result<()> {
    let o = GenOpts {
        seed: a.num("seed", 1u64),
        kind: a.opt("kind").unwrap_or("basic").to_string(),
        n_samples: a.num("samples", 4usize),
        n_chrom: a.num("chroms", 2usize),
        chrom_len: a.num("len", 2000usize),
        pansn: a.flag("pansn"),
    };
    let samples = generate(&o);
    let dir = a.get("dir")?;
    let p = Present { width: a.num("width", 60usize), crlf: a.flag("crlf"), case: a.num("case", 0u8), final_newline: !a.flag("no-final-newline") };
    let files = write_files(dir, &samples, a.flag("single"), &p, o.seed)?;
    let case = json!({"seed": o.seed, "kind": o.kind, "pansn": o.pansn, "single": a.flag("single"), "files": files, "samples": to_json(&samples)});
    std::fs::write(format!("{}/case.json", dir), serde_json::to_vec(&case)?)?;
    println!("{}", json!({"files": files, "n_samples": samples.len(), "n_contigs": samples.iter().map(|s| s.contigs.len()).sum::<usize>(),
        "bases": samples.iter().map(|s| s.contigs.iter().map(|c| c.seq.len()).sum::<usize>()).sum::<usize>()}));
    Ok(())
}
