//! Binding of spec/Range.tla (C07) to ragc_core::Decompressor::{get_contig_range, get_contig_length}.
//!
//! `trace-range --agc X --case D/case.json --out T.ndjson [--arc ID] [--short-max N] [--cross set|full]
//!              [--max-short N] [--max-long N]`
//! opens the archive with the real Decompressor and records NDJSON events.  Nothing is decided here:
//! TLC validates every event against spec/Trace_Range.tla.  This file only drives the real API,
//! projects (usize::MAX -> -1, Err -> -1 / panic -> -2 in the prefix column) and writes events.
//!
//!   {"ev":"contig", arc, sample, name, k, input:[codes]      (from case.json: the oracle)
//!                 , got_res, got:[codes]                     (get_contig on the same handle)
//!                 , lens:[raw_length...], rc:[0/1...]        (get_contig_segments_desc)
//!                 , len_res, length                          (get_contig_length)
//!                 , mode:"all"|"junction", got_first, msgs}
//!                 , nt:{...}                                 measured classes of the queries (evidence only)
//!   {"ev":"q", a, bs:[ends], p:[...], s:[[...]...], msgs}    one event per (contig, start)
//! `--meta M.ndjson` additionally writes the contig events without base sequences (statistics for the orchestrator).
//! Query plan: contigs of at most --short-max bases: ALL (start, end) in (0..len+2 + usize::MAX)^2;
//! longer ones: W = every junction +-(k+1), S = {0, junctions, len-1, len, len+1, usize::MAX};
//! starts in W x ends in S and starts in S x ends in W+S (--cross full: (W+S) x (W+S)).
//!
//! Lossless result coding inside one `q` event (the ends are ascending, so correct results are
//! prefix-extensions of each other; without it the data would be cubic in the contig length):
//! result_j = SubSeq(result_{j-1}, 1, p_j) \o s_j  with result_0 = <<>>;  p_j = -1 (Err) / -2 (panic)
//! means "no sequence returned" (s_j = <<>>, result_j := <<>> for the next delta).  p_j is the length of
//! the common prefix of two RECORDED results (never of a result and the oracle); the decoder in
//! Trace_Range.tla reproduces every recorded result exactly and TLC compares it with RangeSpec.
//! The encoder's round trip is asserted here (a failure is a harness error, exit 2).
//!
//! The CLI path (`ragc getrange` / `ctglen`) is driven by checks/c07.py.
use crate::gen;
use crate::util::{self, Args};
use anyhow::{anyhow, Result};
use ragc_core::kmer::{Kmer, KmerMode};
use ragc_core::{Decompressor, DecompressorConfig};
use serde_json::{json, Value};
use std::collections::BTreeSet;
use std::io::Write;

pub fn dispatch(cmd: &str, a: &Args) -> Option<Result<()>> {
    match cmd {
        "trace-range" => Some(trace(a)),
        _ => None,
    }
}

const MAXU: usize = usize::MAX;

fn pj(x: usize) -> i64 {
    if x == MAXU {
        -1
    } else {
        x as i64
    }
}

enum Res {
    Ok(Vec<u8>),
    Err(String),
    Panic(String),
}

fn call_range(d: &mut Decompressor, s: &str, c: &str, a: usize, b: usize) -> Res {
    match util::catch(std::panic::AssertUnwindSafe(|| d.get_contig_range(s, c, a, b))) {
        Ok(Ok(v)) => Res::Ok(v),
        Ok(Err(e)) => Res::Err(format!("{:#}", e)),
        Err(p) => Res::Panic(p),
    }
}

/// one `q` event: all ends for one start
fn query_event(d: &mut Decompressor, s: &str, c: &str, a: usize, bs: &[usize]) -> Result<Value> {
    let mut p: Vec<i64> = Vec::with_capacity(bs.len());
    let mut sfx: Vec<Vec<u8>> = Vec::with_capacity(bs.len());
    let mut msgs: Vec<String> = vec![];
    let mut prev: Vec<u8> = vec![];
    for &b in bs {
        match call_range(d, s, c, a, b) {
            Res::Ok(v) => {
                let cp = prev.iter().zip(v.iter()).take_while(|(x, y)| x == y).count();
                let suffix = v[cp..].to_vec();
                // round trip of the coding (harness self-check, not a verdict on ragc)
                let mut dec = prev[..cp].to_vec();
                dec.extend_from_slice(&suffix);
                if dec != v {
                    return Err(anyhow!("delta coding round trip failed"));
                }
                p.push(cp as i64);
                sfx.push(suffix);
                prev = v;
            }
            Res::Err(m) => {
                p.push(-1);
                sfx.push(vec![]);
                if msgs.len() < 3 {
                    msgs.push(format!("b={}: Err {}", pj(b), m));
                }
                prev = vec![];
            }
            Res::Panic(m) => {
                p.push(-2);
                sfx.push(vec![]);
                if msgs.len() < 3 {
                    msgs.push(format!("b={}: panic {}", pj(b), m));
                }
                prev = vec![];
            }
        }
    }
    Ok(json!({"ev": "q", "a": pj(a), "bs": bs.iter().map(|&b| pj(b)).collect::<Vec<_>>(), "p": p, "s": sfx, "msgs": msgs}))
}

/// MEASUREMENT ONLY (evidence of non-triviality, never a verdict): classes of the queries asked, derived from
/// the recorded descriptor list and the input length.
#[derive(Default)]
struct Nt {
    queries: u64,
    nonempty: u64,  // a < min(b, len)
    multi: u64,     // non-empty and meets the contribution of >= 2 segments
    overlap: u64,   // non-empty and start or clamped end lies strictly inside the k bases shared by two segments
    rev: u64,       // non-empty and meets the contribution of a reverse-oriented segment
    clamped: u64,   // non-empty and b > len
    split: u64,     // non-empty and spans a junction that was produced by splitting a segment (k-mer is not a splitter)
    tail_zero: u64, // non-empty, reaches the last base, and the list ends with a segment contributing 0 bases
}
impl Nt {
    fn count(&mut self, lens: &[u64], rcs: &[u8], k: usize, l: usize, a: usize, b: usize, split_j: &[usize]) {
        self.queries += 1;
        let e = b.min(l);
        if a >= e {
            return;
        }
        self.nonempty += 1;
        if b > l {
            self.clamped += 1;
        }
        let (mut pos, mut touched, mut rev, mut ov) = (0usize, 0u32, false, false);
        for (i, &x) in lens.iter().enumerate() {
            let x = x as usize;
            let c = if i == 0 { x } else { x.saturating_sub(k) };
            let (s0, e0) = (pos, pos + c);
            if c > 0 && s0 < e && e0 > a {
                touched += 1;
                if rcs.get(i).copied().unwrap_or(0) == 1 {
                    rev = true;
                }
            }
            if i > 0 && s0 >= k {
                // bases [s0-k, s0) are stored in segment i-1 and again at the head of segment i
                let lo = s0 - k;
                if (a > lo && a < s0) || (e > lo && e < s0) {
                    ov = true;
                }
            }
            pos = e0;
        }
        if touched >= 2 {
            self.multi += 1;
        }
        if split_j.iter().any(|&j| a < j && j < e) {
            self.split += 1;
        }
        if rev {
            self.rev += 1;
        }
        if ov {
            self.overlap += 1;
        }
        if e == l && lens.len() > 1 && *lens.last().unwrap() as usize == k {
            self.tail_zero += 1;
        }
    }
}

fn trace(a: &Args) -> Result<()> {
    util::install_panic_hook();
    let agc = a.get("agc")?;
    let case: Value = serde_json::from_slice(&std::fs::read(a.get("case")?)?)?;
    let samples = gen::from_json(&case["samples"]);
    let arc = a.opt("arc").unwrap_or("").to_string();
    let short_max: usize = a.num("short-max", 300usize);
    let cross_full = a.opt("cross").unwrap_or("set") == "full";
    let max_short: usize = a.num("max-short", usize::MAX);
    let max_long: usize = a.num("max-long", usize::MAX);
    let skip_short: usize = a.num("skip-short", 0usize);
    let skip_long: usize = a.num("skip-long", 0usize);
    let mut out = std::io::BufWriter::new(std::fs::File::create(a.get("out")?)?);
    // --meta: the contig events without the base sequences (for the orchestrator's statistics)
    let mut meta = match a.opt("meta") {
        Some(p) => Some(std::io::BufWriter::new(std::fs::File::create(p)?)),
        None => None,
    };
    let mut d = Decompressor::open(agc, DecompressorConfig { verbosity: 0 })?;
    let k = d.kmer_length as usize;
    // MEASUREMENT ONLY: the splitter set `create` determined from the first input (same calls as archive::create_like_cli),
    // to tell junctions placed by segmentation (k-mer is a splitter) from junctions produced by splitting a segment in two.
    let splitters: Option<Vec<u64>> = match (a.opt("first-file"), a.opt("seg")) {
        (Some(f), Some(sg)) => {
            let seg: usize = sg.parse()?;
            let path = std::path::PathBuf::from(f);
            let set = if a.flag("single") {
                ragc_core::determine_splitters_streaming_first_sample(&path, k, seg)?.0
            } else {
                ragc_core::determine_splitters_streaming(&path, k, seg)?.0
            };
            let mut v: Vec<u64> = set.into_iter().collect();
            v.sort_unstable();
            Some(v)
        }
        _ => None,
    };
    let (mut n_short, mut n_long, mut n_contigs, mut n_queries, mut n_events) = (0usize, 0usize, 0usize, 0u64, 0u64);
    let (mut seen_short, mut seen_long) = (0usize, 0usize);
    for (si, smp) in samples.iter().enumerate() {
        for (ci, ctg) in smp.contigs.iter().enumerate() {
            // the archive stores the whole header line as the contig name
            let cname = ctg.name.clone();
            let sname = smp.name.clone();
            let input = &ctg.seq;
            if input.is_empty() {
                continue; // empty records are not stored (create skips them)
            }
            let is_short = input.len() <= short_max;
            if is_short {
                seen_short += 1;
                if seen_short <= skip_short || n_short >= max_short {
                    continue;
                }
            } else {
                seen_long += 1;
                if seen_long <= skip_long || n_long >= max_long {
                    continue;
                }
            }
            let got_first = (si + ci) % 2 == 1;
            let mut msgs: Vec<String> = vec![];
            let extract = |d: &mut Decompressor, msgs: &mut Vec<String>| -> (i64, Vec<u8>) {
                match util::catch(std::panic::AssertUnwindSafe(|| d.get_contig(&sname, &cname))) {
                    Ok(Ok(v)) => (0, v),
                    Ok(Err(e)) => {
                        msgs.push(format!("get_contig: Err {:#}", e));
                        (-1, vec![])
                    }
                    Err(p) => {
                        msgs.push(format!("get_contig: panic {}", p));
                        (-2, vec![])
                    }
                }
            };
            let mut got: Option<(i64, Vec<u8>)> = None;
            if got_first {
                got = Some(extract(&mut d, &mut msgs));
            }
            let (lens, rcs): (Vec<u64>, Vec<u8>) =
                match util::catch(std::panic::AssertUnwindSafe(|| d.get_contig_segments_desc(&sname, &cname))) {
                    Ok(Ok(v)) => (v.iter().map(|x| x.raw_length as u64).collect(), v.iter().map(|x| x.is_rev_comp as u8).collect()),
                    Ok(Err(e)) => {
                        msgs.push(format!("get_contig_segments_desc: Err {:#}", e));
                        (vec![], vec![])
                    }
                    Err(p) => {
                        msgs.push(format!("get_contig_segments_desc: panic {}", p));
                        (vec![], vec![])
                    }
                };
            let (len_res, length): (i64, i64) =
                match util::catch(std::panic::AssertUnwindSafe(|| d.get_contig_length(&sname, &cname))) {
                    Ok(Ok(n)) => (0, if n > i32::MAX as usize { -3 } else { n as i64 }),
                    Ok(Err(e)) => {
                        msgs.push(format!("get_contig_length: Err {:#}", e));
                        (-1, 0)
                    }
                    Err(p) => {
                        msgs.push(format!("get_contig_length: panic {}", p));
                        (-2, 0)
                    }
                };
            // ---- query plan (positions are derived from the INPUT length and the recorded descriptors only)
            let l = input.len();
            let mut junctions: Vec<usize> = vec![];
            {
                let mut pos = 0usize;
                for (i, &x) in lens.iter().enumerate() {
                    let x = x as usize;
                    let contrib = if i == 0 { x } else { x.saturating_sub(k) };
                    pos = pos.saturating_add(contrib);
                    if i + 1 < lens.len() {
                        junctions.push(pos);
                    }
                }
            }
            // junctions whose k overlap bases are not a splitter of the reference (measurement only)
            let mut split_j: Vec<usize> = vec![];
            if let Some(spl) = &splitters {
                for &j in &junctions {
                    if j >= k && j <= l {
                        let w = &input[j - k..j];
                        let is_spl = if w.iter().any(|&b| b > 3) {
                            false
                        } else {
                            let mut km = Kmer::new(k as u32, KmerMode::Canonical);
                            for &b in w {
                                km.insert(b as u64);
                            }
                            spl.binary_search(&km.data()).is_ok()
                        };
                        if !is_spl {
                            split_j.push(j);
                        }
                    }
                }
            }
            let mut plan: Vec<(usize, Vec<usize>)> = vec![];
            if is_short {
                let mut all: Vec<usize> = (0..=l + 2).collect();
                all.push(MAXU);
                for &s in &all {
                    plan.push((s, all.clone()));
                }
            } else {
                let mut w: BTreeSet<usize> = BTreeSet::new();
                for &j in &junctions {
                    let lo = j.saturating_sub(k + 1);
                    let hi = (j + k + 1).min(l + 1);
                    for x in lo..=hi {
                        w.insert(x);
                    }
                }
                let mut sset: BTreeSet<usize> = BTreeSet::new();
                sset.insert(0);
                sset.extend(junctions.iter().copied().filter(|&j| j <= l + 1));
                sset.insert(l.saturating_sub(1));
                sset.insert(l);
                sset.insert(l + 1);
                sset.insert(MAXU);
                let both: BTreeSet<usize> = w.union(&sset).copied().collect();
                let sv: Vec<usize> = sset.iter().copied().collect();
                let bv: Vec<usize> = both.iter().copied().collect();
                for &s in &bv {
                    if sset.contains(&s) || cross_full {
                        plan.push((s, bv.clone()));
                    } else {
                        plan.push((s, sv.clone()));
                    }
                }
            }
            let mut qevs: Vec<Value> = Vec::with_capacity(plan.len());
            let mut nt = Nt::default();
            for (s, bs) in &plan {
                qevs.push(query_event(&mut d, &sname, &cname, *s, bs)?);
                n_queries += bs.len() as u64;
                for &b in bs {
                    nt.count(&lens, &rcs, k, l, *s, b, &split_j);
                }
            }
            if got.is_none() {
                got = Some(extract(&mut d, &mut msgs));
            }
            let (got_res, gotv) = got.unwrap();
            writeln!(
                out,
                "{}",
                json!({"ev": "contig", "arc": arc, "sample": sname, "name": cname, "k": k, "input": input, "got_res": got_res, "got": gotv,
                       "lens": lens, "rc": rcs, "len_res": len_res, "length": length,
                       "mode": if is_short { "all" } else { "junction" }, "got_first": got_first, "msgs": msgs,
                       "nt": {"queries": nt.queries, "nonempty": nt.nonempty, "multi": nt.multi, "overlap": nt.overlap, "rev": nt.rev,
                              "clamped": nt.clamped, "tail_zero": nt.tail_zero, "split": nt.split, "split_junctions": split_j.len()}})
            )?;
            if let Some(m) = meta.as_mut() {
                writeln!(
                    m,
                    "{}",
                    json!({"ev": "contig", "arc": arc, "sample": sname, "name": cname, "k": k, "len": input.len(), "sha": util::sha256_hex(input),
                           "got_res": got_res, "lens": lens, "rc": rcs, "len_res": len_res, "length": length,
                           "mode": if is_short { "all" } else { "junction" }, "events": qevs.len(),
                           "nt": {"queries": nt.queries, "nonempty": nt.nonempty, "multi": nt.multi, "overlap": nt.overlap, "rev": nt.rev,
                                  "clamped": nt.clamped, "tail_zero": nt.tail_zero, "split": nt.split, "split_junctions": split_j.len()}})
                )?;
            }
            for e in qevs {
                writeln!(out, "{}", e)?;
                n_events += 1;
            }
            n_contigs += 1;
            if is_short {
                n_short += 1
            } else {
                n_long += 1
            }
        }
    }
    out.flush()?;
    if let Some(m) = meta.as_mut() {
        m.flush()?;
    }
    println!("{}", json!({"contigs": n_contigs, "short": n_short, "long": n_long, "queries": n_queries, "events": n_events, "k": k}));
    Ok(())
}
