//! Binding of spec/Splitters.tla to ragc_core::splitters (C11).
//!
//! The harness only DRIVES the three real entry points (in-memory under dedicated rayon pools,
//! streaming and first-sample through temporary FASTA files), PROJECTS their results (u64 k-mers ->
//! symbol sequences, sorted; for large references digests and cardinalities) and, for REPLAY,
//! COMPARES the projected real result with the model's terminal state.  Every law of C11 is
//! evaluated by TLC (Trace_Splitters.tla) on the recorded events.
//!
//!   replay-splitters --in F [--trace-out T]      behaviours printed by MC_Splitters
//!   trace-splitters  --seed S --ncases N --minlen A --maxlen B --out T [--from-case I]
//!   trace-splitters  --big --seed S --ncases N --minlen A --maxlen B --out T [--from-case I]
use crate::util::{self, Args};
use anyhow::{anyhow, Result};
use ragc_core::segment::split_at_splitters_with_size;
use ragc_core::splitters::{
    determine_splitters, determine_splitters_streaming, determine_splitters_streaming_first_sample,
};
use rand::rngs::StdRng;
use rand::seq::SliceRandom;
use rand::Rng;
use serde_json::{json, Value};
use std::collections::{BTreeSet, HashMap};
use std::io::{BufRead, Write};
use std::path::Path;

pub fn dispatch(cmd: &str, a: &Args) -> Option<Result<()>> {
    match cmd {
        "replay-splitters" => Some(replay(a)),
        "trace-splitters" => Some(if a.flag("big") { trace_big(a) } else { trace(a) }),
        _ => None,
    }
}

// ---------------------------------------------------------------------------------------------
// driving the code under test
// ---------------------------------------------------------------------------------------------

/// ragc prints DEBUG lines on stderr from every call: send fd 2 to /dev/null for this process.
fn quiet_stderr() {
    unsafe {
        let fd = libc::open(b"/dev/null\0".as_ptr() as *const libc::c_char, libc::O_WRONLY);
        if fd >= 0 {
            libc::dup2(fd, 2);
            libc::close(fd);
        }
    }
}

struct Pools {
    m: HashMap<usize, rayon::ThreadPool>,
}
impl Pools {
    fn new() -> Self {
        Pools { m: HashMap::new() }
    }
    fn get(&mut self, n: usize) -> &rayon::ThreadPool {
        self.m.entry(n).or_insert_with(|| rayon::ThreadPoolBuilder::new().num_threads(n).build().expect("rayon pool"))
    }
}

const LETTERS: &[u8; 16] = b"ACGTNRYSWKMBDHVU";
fn letter(code: u8) -> u8 {
    if (code as usize) < 16 {
        LETTERS[code as usize]
    } else {
        b'X' // any letter outside the IUPAC table reads back as code 30
    }
}

/// One FASTA record of the temporary file: sample index (1 = the reference sample) and contig.
#[derive(Clone)]
struct Rec {
    s: usize,
    c: Vec<u8>,
}

/// Write the records as a FASTA file; `pansn` decides the header style (sample#1#ctg / plain).
fn write_fasta(path: &Path, recs: &[Rec], pansn: bool, width: usize) -> Result<()> {
    let mut f = std::io::BufWriter::new(std::fs::File::create(path)?);
    for (i, r) in recs.iter().enumerate() {
        if pansn {
            writeln!(f, ">smp{}#1#ctg{}", r.s, i + 1)?;
        } else {
            writeln!(f, ">ctg{}", i + 1)?;
        }
        let txt: Vec<u8> = r.c.iter().map(|&b| letter(b)).collect();
        if width == 0 {
            f.write_all(&txt)?;
            f.write_all(b"\n")?;
        } else {
            for ch in txt.chunks(width) {
                f.write_all(ch)?;
                f.write_all(b"\n")?;
            }
        }
    }
    f.flush()?;
    Ok(())
}

/// (splitters, singletons, duplicates) as sorted vectors, or the error / panic text.
type Triple = (Vec<u64>, Vec<u64>, Vec<u64>);

fn sorted<I: IntoIterator<Item = u64>>(it: I) -> Vec<u64> {
    let mut v: Vec<u64> = it.into_iter().collect();
    v.sort_unstable();
    v
}

fn call_variant(pools: &mut Pools, variant: &str, threads: usize, recs: &[Rec], file: &Path, k: usize, seg: usize) -> std::result::Result<Triple, String> {
    let pool = pools.get(threads);
    match variant {
        "mem" => {
            let contigs: Vec<Vec<u8>> = recs.iter().map(|r| r.c.clone()).collect();
            util::catch(std::panic::AssertUnwindSafe(|| pool.install(|| determine_splitters(&contigs, k, seg))))
                .map(|(a, b, c)| (sorted(a), sorted(b), sorted(c)))
        }
        "stream" | "first" => {
            let r = util::catch(std::panic::AssertUnwindSafe(|| {
                pool.install(|| {
                    if variant == "stream" {
                        determine_splitters_streaming(file, k, seg)
                    } else {
                        determine_splitters_streaming_first_sample(file, k, seg)
                    }
                })
            }));
            match r {
                Ok(Ok((a, b, c))) => Ok((sorted(a), sorted(b), sorted(c))),
                Ok(Err(e)) => Err(format!("Err: {:#}", e)),
                Err(p) => Err(format!("panic: {}", p)),
            }
        }
        _ => Err("unknown variant".into()),
    }
}

/// real segmentation of every contig with the given splitter set: segment lengths
fn seg_lens(contigs: &[Vec<u8>], spl: &[u64], k: usize, seg: usize) -> std::result::Result<Vec<Vec<usize>>, String> {
    let set: ahash::AHashSet<u64> = spl.iter().copied().collect();
    util::catch(std::panic::AssertUnwindSafe(|| {
        contigs.iter().map(|c| split_at_splitters_with_size(c, &set, k, seg).iter().map(|s| s.data.len()).collect()).collect()
    }))
}

// ---------------------------------------------------------------------------------------------
// projections
// ---------------------------------------------------------------------------------------------
fn proj_set(v: &[u64], k: usize) -> (Vec<Vec<u8>>, bool) {
    let mut ok = true;
    let out = v
        .iter()
        .map(|&x| {
            let (s, z) = util::unpack(x, k as u32);
            ok &= z;
            s
        })
        .collect();
    (out, ok)
}

fn digest(v: &[u64]) -> String {
    let mut b = Vec::with_capacity(v.len() * 8);
    for x in v {
        b.extend_from_slice(&x.to_be_bytes());
    }
    util::sha256_hex(&b)
}

fn comp(b: u8) -> u8 {
    if b < 4 {
        3 - b
    } else {
        b
    }
}
fn rc(c: &[u8]) -> Vec<u8> {
    c.iter().rev().map(|&b| comp(b)).collect()
}

/// the variant of a reference: contig order `perm` (0-based indices into the original), RC mask
/// indexed by ORIGINAL contig number
fn variant_of(reference: &[Vec<u8>], perm: &[usize], mask: &[bool]) -> Vec<Vec<u8>> {
    perm.iter().map(|&i| if mask[i] { rc(&reference[i]) } else { reference[i].clone() }).collect()
}

fn syms(v: &Value) -> Vec<u8> {
    v.as_array().map(|a| a.iter().map(|x| x.as_u64().unwrap() as u8).collect()).unwrap_or_default()
}
fn symset(v: &Value) -> BTreeSet<Vec<u8>> {
    v.as_array().map(|a| a.iter().map(syms).collect()).unwrap_or_default()
}

// ---------------------------------------------------------------------------------------------
// one case = one reference with its calls; produces the trace events
// ---------------------------------------------------------------------------------------------
struct CallPlan {
    variant: &'static str,
    threads: usize,
    extra: Vec<Rec>, // records of further samples appended to the file (first-sample variant only)
    pansn: bool,
    width: usize,
}

struct CaseOut {
    events: Vec<Value>,
    /// first result per input variant (index into `inputs`)
    first: Vec<Option<Triple>>,
    lens: Vec<Option<Vec<Vec<usize>>>>,
    all: Vec<(usize, &'static str, usize, std::result::Result<Triple, String>)>,
}

#[allow(clippy::too_many_arguments)]
fn run_case(
    pools: &mut Pools,
    tmp: &Path,
    case: &Value,
    reference: &[Vec<u8>],
    k: usize,
    seg: usize,
    inputs: &[(Vec<usize>, Vec<bool>)],
    plans: &dyn Fn(usize) -> Vec<CallPlan>,
    big: bool,
) -> Result<CaseOut> {
    let mut ev: Vec<Value> = vec![];
    if big {
        ev.push(json!({"ev": "bstart", "case": case, "k": k, "seg": seg, "nctg": reference.len(),
                        "total": reference.iter().map(|c| c.len()).sum::<usize>()}));
    } else {
        ev.push(json!({"ev": "start", "case": case, "k": k, "seg": seg, "ref": reference}));
    }
    let file = tmp.join("ref.fa");
    let mut first: Vec<Option<Triple>> = vec![None; inputs.len()];
    let mut lens_out: Vec<Option<Vec<Vec<usize>>>> = vec![None; inputs.len()];
    let mut all = vec![];
    for (ii, (perm, mask)) in inputs.iter().enumerate() {
        let contigs = variant_of(reference, perm, mask);
        let perm1: Vec<usize> = perm.iter().map(|x| x + 1).collect();
        for p in plans(ii) {
            let mut recs: Vec<Rec> = contigs.iter().map(|c| Rec { s: 1, c: c.clone() }).collect();
            recs.extend(p.extra.iter().cloned());
            if p.variant != "mem" {
                write_fasta(&file, &recs, p.pansn, p.width)?;
            }
            let r = call_variant(pools, p.variant, p.threads, &recs, &file, k, seg);
            let mut e = if big {
                json!({"ev": "bcall", "variant": p.variant, "threads": p.threads, "key": ii + 1,
                       "nextra": p.extra.len()})
            } else {
                json!({"ev": "call", "variant": p.variant, "threads": p.threads, "perm": perm1, "rc": mask,
                       "file": recs.iter().map(|r| json!({"s": r.s, "c": r.c})).collect::<Vec<_>>()})
            };
            match &r {
                Ok((spl, sing, dup)) => {
                    if big {
                        let su: BTreeSet<u64> = sing.iter().chain(dup.iter()).copied().collect();
                        let ss: BTreeSet<u64> = sing.iter().chain(spl.iter()).copied().collect();
                        e["spl_d"] = json!(digest(spl));
                        e["sing_d"] = json!(digest(sing));
                        e["dup_d"] = json!(digest(dup));
                        e["n_spl"] = json!(spl.len());
                        e["n_sing"] = json!(sing.len());
                        e["n_dup"] = json!(dup.len());
                        e["n_sing_u_dup"] = json!(su.len());
                        e["n_spl_u_sing"] = json!(ss.len());
                    } else {
                        let (a, z1) = proj_set(spl, k);
                        let (b, z2) = proj_set(sing, k);
                        let (c, z3) = proj_set(dup, k);
                        e["spl"] = json!(a);
                        e["sing"] = json!(b);
                        e["dup"] = json!(c);
                        e["lowzero"] = json!(z1 && z2 && z3);
                    }
                    e["err"] = json!("");
                    if first[ii].is_none() {
                        first[ii] = Some((spl.clone(), sing.clone(), dup.clone()));
                    }
                }
                Err(msg) => {
                    if big {
                        for f in ["spl_d", "sing_d", "dup_d"] {
                            e[f] = json!("");
                        }
                        for f in ["n_spl", "n_sing", "n_dup", "n_sing_u_dup", "n_spl_u_sing"] {
                            e[f] = json!(0);
                        }
                    } else {
                        e["spl"] = json!([]);
                        e["sing"] = json!([]);
                        e["dup"] = json!([]);
                        e["lowzero"] = json!(true);
                    }
                    e["err"] = json!(msg);
                }
            }
            ev.push(e);
            all.push((ii, p.variant, p.threads, r));
        }
        // the real segmentation of this input with the splitters the code returned for it
        if let Some((spl, _, _)) = &first[ii] {
            let l = seg_lens(&contigs, spl, k, seg);
            let mut e = if big { json!({"ev": "bsegs", "key": ii + 1}) } else { json!({"ev": "segs", "perm": perm1, "rc": mask}) };
            match l {
                Ok(l) => {
                    e["lens"] = json!(l);
                    e["err"] = json!("");
                    lens_out[ii] = Some(l);
                }
                Err(m) => {
                    e["lens"] = json!([]);
                    e["err"] = json!(m);
                }
            }
            ev.push(e);
        }
    }
    Ok(CaseOut { events: ev, first, lens: lens_out, all })
}

// ---------------------------------------------------------------------------------------------
// REPLAY
// ---------------------------------------------------------------------------------------------
/// Every terminal state printed by MC_Splitters is executed on the real entry points (in-memory
/// with 1, 2 and 4 rayon threads, streaming, first-sample); the projected real result is compared
/// with the model's: `sing`/`dup` are the property's own definitions (mismatch = fail); the
/// splitter set and the segment lengths are the model of the code's selection POLICY (mismatch =
/// drift: the case's events are written to --trace-out and TLC decides the laws on them).
pub fn replay(a: &Args) -> Result<()> {
    util::install_panic_hook();
    quiet_stderr();
    let f = std::fs::File::open(a.get("in")?)?;
    let tmpd = tempfile::tempdir()?;
    let mut pools = Pools::new();
    let mut tout = match a.opt("trace-out") {
        Some(p) => Some(std::io::BufWriter::new(std::fs::File::create(p)?)),
        None => None,
    };
    let (mut n, mut steps, mut ndrift, mut multi) = (0u64, 0u64, 0u64, 0u64);
    let mut fails: Vec<Value> = vec![];
    let mut drifts: Vec<Value> = vec![];
    for line in std::io::BufReader::new(f).lines() {
        let line = line?;
        if line.trim().is_empty() {
            continue;
        }
        let b: Value = serde_json::from_str(&line)?;
        let k = b["k"].as_u64().unwrap() as usize;
        let seg = b["seg"].as_u64().unwrap() as usize;
        let reference: Vec<Vec<u8>> = b["ref"].as_array().ok_or_else(|| anyhow!("ref"))?.iter().map(syms).collect();
        let m_sing = symset(&b["sing"]);
        let m_dup = symset(&b["dup"]);
        let m_used = symset(&b["used"]);
        let m_lens: Vec<Vec<usize>> = b["lens"].as_array().map(|x| x.iter().map(|l| l.as_array().map(|y| y.iter().map(|z| z.as_u64().unwrap() as usize).collect()).unwrap_or_default()).collect()).unwrap_or_default();
        n += 1;
        let ident: Vec<(Vec<usize>, Vec<bool>)> = vec![((0..reference.len()).collect(), vec![false; reference.len()])];
        let plans = |_ii: usize| -> Vec<CallPlan> {
            vec![
                CallPlan { variant: "mem", threads: 1, extra: vec![], pansn: true, width: 0 },
                CallPlan { variant: "mem", threads: 2, extra: vec![], pansn: true, width: 0 },
                CallPlan { variant: "mem", threads: 4, extra: vec![], pansn: true, width: 0 },
                CallPlan { variant: "stream", threads: 1, extra: vec![], pansn: (n % 2) == 0, width: 0 },
                CallPlan { variant: "first", threads: 2, extra: vec![], pansn: (n % 2) == 1, width: 0 },
            ]
        };
        let out = run_case(&mut pools, tmpd.path(), &json!(n), &reference, k, seg, &ident, &plans, false)?;
        steps += out.all.len() as u64;
        let mut bad: BTreeSet<&'static str> = BTreeSet::new();
        let mut drift: BTreeSet<&'static str> = BTreeSet::new();
        let mut detail = vec![];
        for (_, variant, threads, r) in &out.all {
            match r {
                Ok((spl, sing, dup)) => {
                    let (ps, z1) = proj_set(spl, k);
                    let (pg, z2) = proj_set(sing, k);
                    let (pd, z3) = proj_set(dup, k);
                    let ps: BTreeSet<Vec<u8>> = ps.into_iter().collect();
                    let pg: BTreeSet<Vec<u8>> = pg.into_iter().collect();
                    let pd: BTreeSet<Vec<u8>> = pd.into_iter().collect();
                    if !(z1 && z2 && z3) {
                        bad.insert("lowzero");
                    }
                    if pg != m_sing {
                        bad.insert("sing");
                        detail.push(json!({"variant": variant, "threads": threads, "real_sing": pg}));
                    }
                    if pd != m_dup {
                        bad.insert("dup");
                        detail.push(json!({"variant": variant, "threads": threads, "real_dup": pd}));
                    }
                    if ps != m_used {
                        drift.insert("spl");
                        detail.push(json!({"variant": variant, "threads": threads, "real_spl": ps}));
                    }
                }
                Err(m) => {
                    bad.insert("error");
                    detail.push(json!({"variant": variant, "threads": threads, "error": m}));
                }
            }
        }
        match &out.lens[0] {
            Some(l) => {
                if *l != m_lens {
                    drift.insert("lens");
                    detail.push(json!({"real_lens": l}));
                }
                if l.iter().any(|x| x.len() >= 4) {
                    multi += 1;
                }
            }
            None => {
                bad.insert("segmentation-error");
            }
        }
        if !bad.is_empty() {
            if fails.len() < 20 {
                fails.push(json!({"fields": bad, "detail": detail, "behaviour": b}));
            }
        } else if !drift.is_empty() {
            ndrift += 1;
            if drifts.len() < 5 {
                drifts.push(json!({"fields": drift, "detail": detail, "behaviour": b}));
            }
        }
        if !bad.is_empty() || !drift.is_empty() {
            if let Some(w) = tout.as_mut() {
                for e in &out.events {
                    writeln!(w, "{}", e)?;
                }
            }
        }
        if fails.len() >= 20 {
            break;
        }
    }
    if let Some(w) = tout.as_mut() {
        w.flush()?;
    }
    println!("{}", json!({"behaviours": n, "steps": steps, "fails": fails, "drift": ndrift, "drift_samples": drifts,
                           "with_interior_segments": multi}));
    Ok(())
}

// ---------------------------------------------------------------------------------------------
// random references
// ---------------------------------------------------------------------------------------------
struct GenRef {
    contigs: Vec<Vec<u8>>,
    k: usize,
    seg: usize,
    feat: Vec<&'static str>,
}

/// Seeded random reference with the features of the property's quantifier: N / IUPAC codes,
/// repeats (direct and reverse-complemented), duplicated contigs, contigs shorter than k.
fn gen_ref(rng: &mut StdRng, minlen: usize, maxlen: usize, big: bool) -> GenRef {
    let total = rng.gen_range(minlen..=maxlen);
    // small k makes duplicates by chance, large k only through planted repeats
    let k: usize = if big {
        match rng.gen_range(0..10) {
            0..=5 => rng.gen_range(9..=15),
            6..=8 => rng.gen_range(16..=31),
            _ => 32,
        }
    } else {
        match rng.gen_range(0..10) {
            0..=3 => rng.gen_range(3..=6),
            4..=6 => rng.gen_range(7..=15),
            7..=8 => rng.gen_range(16..=31),
            _ => 32,
        }
    };
    let nctg = if big { rng.gen_range(1..=12) } else { rng.gen_range(1..=8) };
    // mostly a segment size that gives the longer contigs several segments (the spacing law needs >= 4)
    let per = (total / nctg.min(3)).max(12);
    let seg: usize = if big {
        if rng.gen_bool(0.8) { rng.gen_range(50..=(per / 8).max(60)) } else { rng.gen_range(500..=3000) }
    } else if rng.gen_bool(0.8) {
        rng.gen_range(5..=(per / 5).max(6))
    } else {
        rng.gen_range(41..=200)
    };
    let mut feat: Vec<&'static str> = vec![];
    // split the total into nctg parts (some may be tiny)
    let mut cuts: Vec<usize> = (0..nctg - 1).map(|_| rng.gen_range(1..total.max(2))).collect();
    cuts.push(0);
    cuts.push(total);
    cuts.sort_unstable();
    let mut lens: Vec<usize> = cuts.windows(2).map(|w| w[1] - w[0]).filter(|&l| l > 0).collect();
    if lens.is_empty() {
        lens.push(total.max(1));
    }
    let p_n: f64 = *[0.0, 0.0, 0.004, 0.02].choose(rng).unwrap();
    let p_rep: f64 = *[0.0, 0.01, 0.03].choose(rng).unwrap();
    let low_entropy = rng.gen_bool(0.15);
    let mut contigs: Vec<Vec<u8>> = vec![];
    for &l in &lens {
        let mut c: Vec<u8> = Vec::with_capacity(l);
        while c.len() < l {
            let x: f64 = rng.gen();
            if x < p_n {
                // a run of one non-ACGT code (N mostly, other IUPAC codes and the unknown code 30 too)
                let code: u8 = match rng.gen_range(0..6) {
                    0..=3 => 4,
                    4 => rng.gen_range(5..16),
                    _ => 30,
                };
                let run = rng.gen_range(1..=if big { 40 } else { 6 });
                for _ in 0..run {
                    if c.len() < l {
                        c.push(code);
                    }
                }
                if !feat.contains(&"nonACGT") {
                    feat.push("nonACGT");
                }
            } else if x < p_n + p_rep && (!c.is_empty() || !contigs.is_empty()) {
                // copy a stretch seen before (this contig or an earlier one), possibly reverse-complemented
                let src: &Vec<u8> = if !contigs.is_empty() && (c.is_empty() || rng.gen_bool(0.5)) { &contigs[rng.gen_range(0..contigs.len())] } else { &c };
                let a = rng.gen_range(0..src.len());
                let maxrep = if big { 400 } else { 3 * k + 10 };
                let b = (a + rng.gen_range(1..=maxrep)).min(src.len());
                let mut piece: Vec<u8> = src[a..b].to_vec();
                if rng.gen_bool(0.5) {
                    piece = rc(&piece);
                    if !feat.contains(&"rc-repeat") {
                        feat.push("rc-repeat");
                    }
                } else if !feat.contains(&"repeat") {
                    feat.push("repeat");
                }
                for s in piece {
                    if c.len() < l {
                        c.push(s);
                    }
                }
            } else if low_entropy {
                c.push(*[0u8, 0, 0, 3, 1].choose(rng).unwrap());
            } else {
                c.push(rng.gen_range(0..4));
            }
        }
        contigs.push(c);
    }
    // duplicated contig (exact or reverse-complemented copy)
    if contigs.len() < 12 && rng.gen_bool(0.3) {
        let i = rng.gen_range(0..contigs.len());
        let d = if rng.gen_bool(0.5) { contigs[i].clone() } else { rc(&contigs[i]) };
        let at = rng.gen_range(0..=contigs.len());
        contigs.insert(at, d);
        feat.push("dup-contig");
    }
    // a contig shorter than k
    if rng.gen_bool(0.3) {
        let l = rng.gen_range(1..k.max(2));
        let c: Vec<u8> = (0..l).map(|_| rng.gen_range(0..4)).collect();
        let at = rng.gen_range(0..=contigs.len());
        contigs.insert(at, c);
        feat.push("short-contig");
    }
    GenRef { contigs, k, seg, feat }
}

fn gen_extra(rng: &mut StdRng, reference: &[Vec<u8>], n: usize) -> Vec<Rec> {
    // further samples after the reference sample: mutated copies and fresh contigs
    let mut out = vec![];
    let ns = rng.gen_range(1..=n);
    for s in 0..ns {
        let nc = rng.gen_range(1..=3);
        for _ in 0..nc {
            let c: Vec<u8> = if rng.gen_bool(0.6) {
                let mut c = reference[rng.gen_range(0..reference.len())].clone();
                for b in c.iter_mut() {
                    if rng.gen_bool(0.05) {
                        *b = rng.gen_range(0..4);
                    }
                }
                c
            } else {
                (0..rng.gen_range(1..200)).map(|_| rng.gen_range(0..4)).collect()
            };
            out.push(Rec { s: s + 2, c });
        }
    }
    out
}

fn gen_inputs(rng: &mut StdRng, n: usize, count: usize) -> Vec<(Vec<usize>, Vec<bool>)> {
    let ident: Vec<usize> = (0..n).collect();
    let mut v = vec![(ident.clone(), vec![false; n])];
    // contig order only; reverse complement only; both
    for i in 1..count {
        let mut p = ident.clone();
        if i % 2 == 1 || i >= 3 {
            p.shuffle(rng);
            if n > 1 && p == ident {
                p.swap(0, n - 1);
            }
        }
        let mut m = vec![false; n];
        if i >= 2 {
            for x in m.iter_mut() {
                *x = rng.gen_bool(0.5);
            }
            if !m.iter().any(|&x| x) {
                m[rng.gen_range(0..n)] = true;
            }
        }
        v.push((p, m));
    }
    v
}

/// TRACE: random references, all three variants under several pool sizes, on the reference,
/// a permutation, a reverse-complemented version and both; full result sets are logged.
pub fn trace(a: &Args) -> Result<()> {
    util::install_panic_hook();
    quiet_stderr();
    let seed: u64 = a.num("seed", 1u64);
    let ncases: usize = a.num("ncases", 10);
    let from: usize = a.num("from-case", 0);
    let minlen: usize = a.num("minlen", 20);
    let maxlen: usize = a.num("maxlen", 300);
    let tmpd = tempfile::tempdir()?;
    let mut pools = Pools::new();
    let mut out = std::io::BufWriter::new(std::fs::File::create(a.get("out")?)?);
    let mut summary = vec![];
    for case in from..from + ncases {
        // every case has its own generator: a case can be regenerated alone
        let mut rng = util::rng(seed.wrapping_mul(0x9E37_79B9_7F4A_7C15) ^ (case as u64).wrapping_mul(0xD1B5_4A32_D192_ED03) ^ 0xC11);
        let g = gen_ref(&mut rng, minlen, maxlen, false);
        let inputs = gen_inputs(&mut rng, g.contigs.len(), 4);
        let extra = gen_extra(&mut rng, &g.contigs, 2);
        let tsel: Vec<usize> = vec![1, 2, 8];
        let t_stream = *[1usize, 2, 8].choose(&mut rng).unwrap();
        let t_first = *[1usize, 2, 8].choose(&mut rng).unwrap();
        let w1 = *[0usize, 60, 7].choose(&mut rng).unwrap();
        let plain = rng.gen_bool(0.3);
        let plans = |ii: usize| -> Vec<CallPlan> {
            let mut v = vec![];
            // the reference itself is run under every pool size; the other inputs under two of them
            for &t in tsel.iter() {
                if ii == 0 || t != 2 {
                    v.push(CallPlan { variant: "mem", threads: t, extra: vec![], pansn: true, width: 0 });
                }
            }
            v.push(CallPlan { variant: "stream", threads: t_stream, extra: vec![], pansn: !plain, width: w1 });
            v.push(CallPlan { variant: "first", threads: t_first, extra: vec![], pansn: !plain, width: w1 });
            if ii % 2 == 0 {
                v.push(CallPlan { variant: "first", threads: 1, extra: extra.clone(), pansn: true, width: 60 });
            }
            v
        };
        let o = run_case(&mut pools, tmpd.path(), &json!(case), &g.contigs, g.k, g.seg, &inputs, &plans, false)?;
        for e in &o.events {
            writeln!(out, "{}", e)?;
        }
        let nseg_max = o.lens.iter().flatten().flat_map(|l| l.iter().map(|x| x.len())).max().unwrap_or(0);
        let (ns, ng, nd) = o.first[0].as_ref().map(|(a, b, c)| (a.len(), b.len(), c.len())).unwrap_or((0, 0, 0));
        summary.push(json!({"case": case, "k": g.k, "seg": g.seg, "nctg": g.contigs.len(),
            "total": g.contigs.iter().map(|c| c.len()).sum::<usize>(), "feat": g.feat,
            "n_spl": ns, "n_sing": ng, "n_dup": nd, "max_segments": nseg_max, "calls": o.all.len()}));
    }
    out.flush()?;
    println!("{}", json!({"cases": summary}));
    Ok(())
}

/// TRACE (large references): digests and cardinalities only; the laws are still decided by TLC.
pub fn trace_big(a: &Args) -> Result<()> {
    util::install_panic_hook();
    quiet_stderr();
    let seed: u64 = a.num("seed", 1u64);
    let ncases: usize = a.num("ncases", 3);
    let from: usize = a.num("from-case", 0);
    let minlen: usize = a.num("minlen", 5000);
    let maxlen: usize = a.num("maxlen", 200000);
    let tmpd = tempfile::tempdir()?;
    let mut pools = Pools::new();
    let mut out = std::io::BufWriter::new(std::fs::File::create(a.get("out")?)?);
    let mut summary = vec![];
    for case in from..from + ncases {
        let mut rng = util::rng(seed.wrapping_mul(0x9E37_79B9_7F4A_7C15) ^ (case as u64).wrapping_mul(0xD1B5_4A32_D192_ED03) ^ 0xB16);
        let g = gen_ref(&mut rng, minlen, maxlen, true);
        let inputs = gen_inputs(&mut rng, g.contigs.len(), 4);
        let extra = gen_extra(&mut rng, &g.contigs, 2);
        let plans = |ii: usize| -> Vec<CallPlan> {
            let mut v = vec![];
            for t in [1usize, 2, 8, 16] {
                if ii == 0 || t == 1 || t == 16 {
                    v.push(CallPlan { variant: "mem", threads: t, extra: vec![], pansn: true, width: 0 });
                }
            }
            v.push(CallPlan { variant: "stream", threads: 2, extra: vec![], pansn: ii % 2 == 0, width: 80 });
            v.push(CallPlan { variant: "first", threads: 8, extra: vec![], pansn: ii % 2 == 1, width: 80 });
            if ii == 0 {
                v.push(CallPlan { variant: "first", threads: 1, extra: extra.clone(), pansn: true, width: 80 });
            }
            v
        };
        let o = run_case(&mut pools, tmpd.path(), &json!(case), &g.contigs, g.k, g.seg, &inputs, &plans, true)?;
        for e in &o.events {
            writeln!(out, "{}", e)?;
        }
        let nseg_max = o.lens.iter().flatten().flat_map(|l| l.iter().map(|x| x.len())).max().unwrap_or(0);
        let (ns, ng, nd) = o.first[0].as_ref().map(|(a, b, c)| (a.len(), b.len(), c.len())).unwrap_or((0, 0, 0));
        summary.push(json!({"case": case, "k": g.k, "seg": g.seg, "nctg": g.contigs.len(),
            "total": g.contigs.iter().map(|c| c.len()).sum::<usize>(), "feat": g.feat,
            "n_spl": ns, "n_sing": ng, "n_dup": nd, "max_segments": nseg_max, "calls": o.all.len()}));
    }
    out.flush()?;
    println!("{}", json!({"cases": summary}));
    Ok(())
}
