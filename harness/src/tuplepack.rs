//! Binding of spec/TuplePack.tla to ragc_core::tuple_packing / segment_compression / zstd_pool (C12).
//!
//! `replay-tuplepack`: every string of the bounded model (one JSON line each: the string, the
//!   model's packed bytes, the model's marker choice) is driven through the real API following the
//!   actions of the specification (SetInput, StoreRef, StoreDelta(level), Load) and the projected
//!   real state (packed bytes, marker, payload after an independent un-ZSTD, decompressed bytes)
//!   is compared with the model's after every step.
//! `trace-tuplepack`: random byte strings (up to 100 kB, repetitiveness on both sides of the 1/2
//!   threshold, every symbol range, every compression level) are compressed on several threads
//!   (main thread with a long-lived ZSTD context + fresh threads) and every call is logged as one
//!   event; TLC validates the log against Trace_TuplePack.tla.  No verdict is made here.
use crate::util::{self, Args};
use anyhow::Result;
use ragc_core::segment_compression::{
    compress_reference_segment, compress_segment, compress_segment_configured, decompress_segment,
    decompress_segment_with_marker,
};
use ragc_core::tuple_packing::{bytes_to_tuples, tuples_to_bytes};
use rand::rngs::StdRng;
use rand::seq::SliceRandom;
use rand::Rng;
use serde_json::{json, Value};
use std::io::{BufRead, Write};

pub fn dispatch(cmd: &str, a: &Args) -> Option<Result<()>> {
    match cmd {
        "replay-tuplepack" => Some(replay(a)),
        "trace-tuplepack" => Some(trace(a)),
        _ => None,
    }
}

fn bytes(v: &Value) -> Vec<u8> {
    v.as_array().map(|a| a.iter().map(|x| x.as_u64().unwrap() as u8).collect()).unwrap_or_default()
}

/// The trusted ZSTD box, used independently of ragc (the `zstd` crate directly).
fn unz(p: &[u8]) -> std::result::Result<Vec<u8>, String> {
    zstd::decode_all(p).map_err(|e| format!("independent un-ZSTD failed: {e}"))
}
fn z(d: &[u8], level: i32) -> Vec<u8> {
    zstd::bulk::compress(d, level).expect("zstd encode")
}

fn levels_arg(a: &Args, default: &[i32]) -> Vec<i32> {
    match a.opt("levels") {
        Some(s) => s.split(',').filter_map(|x| x.trim().parse().ok()).collect(),
        None => default.to_vec(),
    }
}

// -------------------------------------------------------------------------------------------------
// REPLAY
// -------------------------------------------------------------------------------------------------

/// One behaviour = one string of the model taken through every Store/Load of the model.
/// Returns the first divergence (step name, fields, model value, real value).
fn replay_one(b: &[u8], packed: &[u8], levels: &[i32], stats: &mut [u64; 4]) -> (u64, Option<Value>) {
    let mut steps = 0u64;
    macro_rules! fail {
        ($step:expr, $field:expr, $model:expr, $real:expr) => {
            return (steps, Some(json!({"step": $step, "fields": [$field], "model": $model, "real": $real})))
        };
    }
    // --- tuple packing alone: Pack / Unpack
    steps += 1;
    let rp = bytes_to_tuples(b);
    if rp != packed {
        // triage aid: does the real pair still round-trip (format divergence) or not (lossy)?
        let rt = util::catch(std::panic::AssertUnwindSafe(|| tuples_to_bytes(&rp))).map(|u| u == b).unwrap_or(false);
        return (steps, Some(json!({"step": "Pack", "fields": ["packed"], "model": packed, "real": rp, "real_roundtrip_ok": rt})));
    }
    steps += 1;
    let ru = tuples_to_bytes(packed);
    if ru != b {
        fail!("Unpack", "unpacked", b, ru);
    }
    // --- StoreRef(m) with the marker the code picks, then Load
    steps += 1;
    let (payload, marker) = match compress_reference_segment(&b.to_vec()) {
        Ok(x) => x,
        Err(e) => fail!("StoreRef", "result", "Ok", format!("Err({e})")),
    };
    if marker > 1 {
        fail!("StoreRef", "marker", "0 or 1", marker);
    }
    stats[marker as usize] += 1;
    let want: &[u8] = if marker == 1 { packed } else { b };
    match unz(&payload) {
        Ok(u) if u == want => {}
        Ok(u) => fail!("StoreRef", "payload", want, json!({"marker": marker, "unz": u})),
        Err(e) => fail!("StoreRef", "payload", want, e),
    }
    steps += 1;
    match decompress_segment_with_marker(&payload, marker) {
        Ok(d) if d == b => {}
        Ok(d) => fail!("Load(ref)", "out", b, json!({"marker": marker, "out": d})),
        Err(e) => fail!("Load(ref)", "out", b, format!("Err({e})")),
    }
    // --- Load of both model blobs EncodeRef(inp, 0) and EncodeRef(inp, 1) (payload made by the
    //     trusted box, so that the marker-1 decoder path is taken for EVERY string)
    for m in [0u8, 1u8] {
        steps += 1;
        let p = if m == 1 { z(packed, 13) } else { z(b, 19) };
        match decompress_segment_with_marker(&p, m) {
            Ok(d) if d == b => {}
            Ok(d) => fail!(format!("Load(model blob, marker {m})"), "out", b, d),
            Err(e) => fail!(format!("Load(model blob, marker {m})"), "out", b, format!("Err({e})")),
        }
    }
    // --- StoreDelta(level), Load
    for (i, &lv) in levels.iter().enumerate() {
        steps += 1;
        let r = if i == 0 && lv == 17 { compress_segment(&b.to_vec()) } else { compress_segment_configured(&b.to_vec(), lv) };
        let p = match r {
            Ok(p) => p,
            Err(e) => fail!(format!("StoreDelta({lv})"), "result", "Ok", format!("Err({e})")),
        };
        match unz(&p) {
            Ok(u) if u == b => {}
            Ok(u) => fail!(format!("StoreDelta({lv})"), "payload", b, u),
            Err(e) => fail!(format!("StoreDelta({lv})"), "payload", b, e),
        }
        steps += 1;
        match decompress_segment_with_marker(&p, 0) {
            Ok(d) if d == b => {}
            Ok(d) => fail!(format!("Load(delta {lv})"), "out", b, d),
            Err(e) => fail!(format!("Load(delta {lv})"), "out", b, format!("Err({e})")),
        }
        match decompress_segment(&p) {
            Ok(d) if d == b => {}
            Ok(d) => fail!(format!("Load(delta {lv}, decompress_segment)"), "out", b, d),
            Err(e) => fail!(format!("Load(delta {lv}, decompress_segment)"), "out", b, format!("Err({e})")),
        }
    }
    (steps, None)
}

pub fn replay(a: &Args) -> Result<()> {
    util::install_panic_hook();
    let levels = levels_arg(a, &[17, 1, 19]);
    let f = std::fs::File::open(a.get("in")?)?;
    let mut n = 0u64;
    let mut steps = 0u64;
    let mut fails: Vec<Value> = vec![];
    // [marker 0 chosen, marker 1 chosen, choice agrees with the model's Choose, disagrees]
    let mut stats = [0u64; 4];
    for line in std::io::BufReader::new(f).lines() {
        let line = line?;
        if line.trim().is_empty() {
            continue;
        }
        let beh: Value = serde_json::from_str(&line)?;
        let b = bytes(&beh["b"]);
        let packed = bytes(&beh["packed"]);
        let choose = beh["choose"].as_u64().unwrap_or(9);
        n += 1;
        let mut st = [0u64; 4];
        let lv = levels.clone();
        let r = util::catch(std::panic::AssertUnwindSafe(|| replay_one(&b, &packed, &lv, &mut st)));
        match r {
            Ok((s, None)) => {
                steps += s;
                stats[0] += st[0];
                stats[1] += st[1];
                // informational only: the code's marker against the model's repetitiveness rule
                let real_marker = if st[1] > 0 { 1 } else { 0 };
                if real_marker == choose { stats[2] += 1 } else { stats[3] += 1 }
            }
            Ok((s, Some(mut v))) => {
                steps += s;
                v["behaviour"] = beh.clone();
                fails.push(v);
            }
            Err(p) => fails.push(json!({"step": "panic", "fields": ["panic"], "panic": p, "behaviour": beh})),
        }
        if fails.len() >= 20 {
            break;
        }
    }
    println!(
        "{}",
        json!({"behaviours": n, "steps": steps, "fails": fails, "marker0": stats[0], "marker1": stats[1],
               "choice_agree": stats[2], "choice_differ": stats[3], "levels": levels})
    );
    Ok(())
}

// -------------------------------------------------------------------------------------------------
// TRACE
// -------------------------------------------------------------------------------------------------

const ALPHABETS: &[&[u8]] = &[
    &[0, 1, 2, 3],
    &[0, 1, 2, 3, 4],
    &[0, 1, 2, 3, 4, 5],
    &[0, 1, 2, 3, 4, 5, 6, 7, 8, 9, 10, 11, 12, 13, 14, 15],
    &[0, 255],
    &[0, 1, 2, 3, 16],
    &[4, 5],
];

fn pick(rng: &mut StdRng, alpha: &[u8]) -> u8 {
    if alpha.is_empty() { rng.gen() } else { *alpha.choose(rng).unwrap() }
}

fn gen_len(rng: &mut StdRng, maxlen: usize) -> usize {
    const EDGE: &[usize] = &[0, 1, 2, 3, 4, 5, 6, 7, 8, 9, 11, 12, 13, 23, 24, 25, 31, 32, 33, 34, 35, 36, 37, 63, 64, 65];
    match rng.gen_range(0..10) {
        0..=2 => *EDGE.choose(rng).unwrap(),
        3..=6 => rng.gen_range(0..=300.min(maxlen)),
        _ => rng.gen_range(0..=maxlen),
    }
}

/// One input string; `class` selects the shape.  Everything is drawn from `rng`.
fn gen_input(rng: &mut StdRng, len: usize) -> (Vec<u8>, String) {
    let class = rng.gen_range(0..6);
    let ai = rng.gen_range(0..=ALPHABETS.len());
    let alpha: &[u8] = if ai == ALPHABETS.len() { &[] } else { ALPHABETS[ai] };
    match class {
        // uniform
        0 => ((0..len).map(|_| pick(rng, alpha)).collect(), format!("uniform/a{ai}")),
        // periodic with period p and per-position noise q: match fraction at offset p is about (1-q)^2
        1 | 2 => {
            let p = *[2usize, 3, 4, 5, 7, 12, 16, 31, 32, 40].choose(rng).unwrap();
            let q = *[0.0f64, 0.05, 0.15, 0.25, 0.28, 0.29, 0.30, 0.31, 0.35, 0.45, 0.6].choose(rng).unwrap();
            let block: Vec<u8> = (0..p).map(|_| pick(rng, alpha)).collect();
            let d = (0..len).map(|i| if rng.gen::<f64>() < q { pick(rng, alpha) } else { block[i % p] }).collect();
            (d, format!("periodic/p{p}/q{q}/a{ai}"))
        }
        // exactly every second compared position differs at offset p: 2*cnt is about cur_size
        3 => {
            let p = rng.gen_range(4..32usize);
            let mut d: Vec<u8> = Vec::with_capacity(len);
            let skew = rng.gen_range(0..3usize);
            for j in 0..len {
                let s = if j < p { rng.gen_range(0..4u8) } else if (j + (j / 7) * skew) % 2 == 0 { d[j - p] } else { (d[j - p] + 1 + rng.gen_range(0..3u8)) % 4 };
                d.push(s);
            }
            (d, format!("half/p{p}/s{skew}"))
        }
        // ACGT with one boundary maximum somewhere (3/4, 5/6, 15/16, 255)
        4 => {
            let m = *[3u8, 4, 5, 6, 15, 16, 255].choose(rng).unwrap();
            let mut d: Vec<u8> = (0..len).map(|_| rng.gen_range(0..4u8)).collect();
            if len > 0 {
                let at = match rng.gen_range(0..3) { 0 => 0, 1 => len - 1, _ => rng.gen_range(0..len) };
                d[at] = m;
            }
            (d, format!("boundary/m{m}"))
        }
        // mostly non-ACGT (cur_size small or zero in the repetitiveness test)
        _ => {
            let hi = *[4u8, 5, 15, 30].choose(rng).unwrap();
            let rate = *[0.0f64, 0.01, 0.2].choose(rng).unwrap();
            let d = (0..len).map(|_| if rng.gen::<f64>() < rate { rng.gen_range(0..4u8) } else { hi }).collect();
            (d, format!("mostlyN/h{hi}/r{rate}"))
        }
    }
}

#[derive(Clone, Copy)]
enum Op {
    Ref,
    Delta(i32),
    Pack,
}

/// Executes a script of (input index, op) on the CURRENT thread and returns the events.
/// `age` = number of compressions this thread's ZSTD context has done before.
fn run_script(t: u64, mut age: u64, inputs: &[Vec<u8>], script: &[(usize, Op)], announce: &mut Vec<bool>) -> (Vec<Value>, u64) {
    let mut evs: Vec<Value> = vec![];
    let mut cur: Option<usize> = None;
    for &(did, op) in script {
        if cur != Some(did) {
            let mut e = json!({"ev": "select", "did": did});
            if !announce[did] {
                e["data"] = json!(inputs[did]);
                announce[did] = true;
            }
            evs.push(e);
            cur = Some(did);
        }
        let data = inputs[did].clone();
        let r = util::catch(std::panic::AssertUnwindSafe(|| -> std::result::Result<Vec<Value>, String> {
            let mut out = vec![];
            match op {
                Op::Pack => {
                    let p = bytes_to_tuples(&data);
                    let u = tuples_to_bytes(&p);
                    out.push(json!({"ev": "pack", "packed": p, "unpacked": u}));
                }
                Op::Ref | Op::Delta(_) => {
                    let (payload, marker, mut ev) = match op {
                        Op::Ref => {
                            let (p, m) = compress_reference_segment(&data).map_err(|e| format!("compress_reference_segment: {e}"))?;
                            (p, m, json!({"ev": "ref", "marker": m}))
                        }
                        Op::Delta(lv) => {
                            let p = compress_segment_configured(&data, lv).map_err(|e| format!("compress_segment_configured: {e}"))?;
                            (p, 0u8, json!({"ev": "delta", "level": lv}))
                        }
                        Op::Pack => unreachable!(),
                    };
                    ev["unz"] = json!(unz(&payload)?);
                    ev["zlen"] = json!(payload.len());
                    out.push(ev);
                    out.push(json!({"ev": "ctx", "t": t, "n": age, "zh": util::sha256_hex(&payload)}));
                    let dec = decompress_segment_with_marker(&payload, marker).map_err(|e| format!("decompress_segment_with_marker: {e}"))?;
                    let mut le = json!({"ev": "load", "dec": dec});
                    if marker == 0 {
                        le["dec2"] = json!(decompress_segment(&payload).map_err(|e| format!("decompress_segment: {e}"))?);
                    }
                    out.push(le);
                }
            }
            Ok(out)
        }));
        if !matches!(op, Op::Pack) {
            age += 1;
        }
        match r {
            Ok(Ok(v)) => evs.extend(v),
            Ok(Err(e)) => {
                evs.push(json!({"ev": "error", "msg": e}));
                break;
            }
            Err(p) => {
                evs.push(json!({"ev": "panic", "msg": p}));
                break;
            }
        }
    }
    (evs, age)
}

pub fn trace(a: &Args) -> Result<()> {
    util::install_panic_hook();
    let seed: u64 = a.num("seed", 1u64);
    let ncases: usize = a.num("cases", 20);
    let first: usize = a.num("first", 0);
    let maxlen: usize = a.num("maxlen", 2048);
    let nbig: usize = a.num("big", 0); // the first `nbig` cases get one input of up to `biglen` bytes
    let biglen: usize = a.num("biglen", 100_000);
    let all_levels: Vec<i32> = levels_arg(a, &[1, 3, 9, 13, 17, 19, 22]);
    let mut out = std::io::BufWriter::new(std::fs::File::create(a.get("out")?)?);
    let mut main_age = 0u64;
    for case in first..first + ncases {
        let mut rng = util::rng(seed.wrapping_mul(0x9E37_79B9_7F4A_7C15) ^ (case as u64) << 20 ^ 0xC12);
        let big = case - first < nbig;
        // inputs
        let nin = if big { 2 } else { rng.gen_range(2..=5) };
        let mut inputs: Vec<Vec<u8>> = vec![];
        let mut shapes: Vec<String> = vec![];
        for i in 0..nin {
            let len = if big && i == 0 {
                *[biglen, biglen - 1, biglen - 2, biglen - 3, biglen - 6, biglen * 2 / 3 + 1].choose(&mut rng).unwrap()
            } else {
                gen_len(&mut rng, maxlen)
            };
            let (d, s) = gen_input(&mut rng, len);
            inputs.push(d);
            shapes.push(s);
        }
        // one op list, executed by every thread in its own order
        let mut ops: Vec<(usize, Op)> = vec![];
        for did in 0..nin {
            ops.push((did, Op::Ref));
            ops.push((did, Op::Pack));
            let nl = if big { 1 } else { 2 };
            for lv in all_levels.choose_multiple(&mut rng, nl) {
                ops.push((did, Op::Delta(*lv)));
            }
        }
        let nthreads = if big { 2 } else { rng.gen_range(2..=3) };
        let mut scripts: Vec<Vec<(usize, Op)>> = vec![];
        for _ in 0..nthreads {
            let mut s = ops.clone();
            s.shuffle(&mut rng);
            scripts.push(s);
        }
        writeln!(out, "{}", json!({"ev": "start", "case": case, "shapes": shapes, "lens": inputs.iter().map(|d| d.len()).collect::<Vec<_>>()}))?;
        // thread 0 = this (long-lived) thread; the others are fresh threads running concurrently
        let mut announce = vec![false; nin];
        let mut all: Vec<Vec<Value>> = vec![];
        let (ev0, age) = run_script(0, main_age, &inputs, &scripts[0], &mut announce);
        let hdr0 = json!({"ev": "thread", "t": 0, "n0": main_age});
        main_age = age;
        let mut first_evs = vec![hdr0];
        first_evs.extend(ev0);
        all.push(first_evs);
        let inputs_ref = &inputs;
        let rest: Vec<Vec<Value>> = std::thread::scope(|sc| {
            let hs: Vec<_> = scripts[1..]
                .iter()
                .enumerate()
                .map(|(i, s)| {
                    sc.spawn(move || {
                        // inputs are announced by thread 0's log already or on first use here
                        let mut ann = vec![true; inputs_ref.len()];
                        let (ev, _) = run_script((i + 1) as u64, 0, inputs_ref, s, &mut ann);
                        let mut v = vec![json!({"ev": "thread", "t": i + 1, "n0": 0})];
                        v.extend(ev);
                        v
                    })
                })
                .collect();
            hs.into_iter().map(|h| h.join().unwrap_or_else(|_| vec![json!({"ev": "panic", "msg": "thread died"})])).collect()
        });
        all.extend(rest);
        // thread 0 may have stopped early (error/panic) before announcing every input
        for (did, done) in announce.iter().enumerate() {
            if !*done {
                all[0].push(json!({"ev": "select", "did": did, "data": inputs[did]}));
            }
        }
        for evs in all {
            for e in evs {
                writeln!(out, "{}", e)?;
            }
        }
    }
    out.flush()?;
    Ok(())
}
