#!/usr/bin/env python3
"""Fills the table of independent seeded changes into DESIGN.md 14.6 (between the SEEDED markers) from seeded/*/meta.json."""
import json, os, re
HERE = os.path.dirname(os.path.dirname(os.path.abspath(__file__)))
rows = []
for d in sorted(os.listdir(os.path.join(HERE, "seeded"))):
    mp = os.path.join(HERE, "seeded", d, "meta.json")
    if os.path.exists(mp):
        m = json.load(open(mp))
        need = m["needs_to_manifest"]
        rows.append("| %s | %s | %s |" % (m["id"], need if len(need) < 230 else need[:227] + "...", ", ".join(m.get("caught_by") or []) or "**missed**"))
table = "<!-- SEEDED-BEGIN -->\n| id | needs, to manifest | caught by (quick tier) |\n|---|---|---|\n" + "\n".join(rows) + "\n<!-- SEEDED-END -->"
p = os.path.join(HERE, "DESIGN.md")
s = open(p).read()
if "SEEDED_TABLE" in s:
    s = s.replace("SEEDED_TABLE", table)
else:
    s = re.sub(r"<!-- SEEDED-BEGIN -->.*?<!-- SEEDED-END -->", lambda m: table, s, flags=re.S)
open(p, "w").write(s)
print(len(rows), "rows")
