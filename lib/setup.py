#!/usr/bin/env python3
"""MANIFEST.setup_cmd: build everything the checks need from files on disk only (offline): the harness in both
profiles (release; chk = overflow checks + debug assertions), the real ragc CLI (release and overflow-checked)."""
import os
import sys

sys.path.insert(0, os.path.dirname(os.path.dirname(os.path.abspath(__file__))))
from lib import common as C  # noqa: E402

C.build_harness("release")
C.build_harness("chk")
C.build_cli()
C.build_cli_checked()
print("setup ok")
