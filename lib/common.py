"""Shared helpers for the /verif check orchestrator (stdlib only).

Exit-code contract (DESIGN.md section 8):
  0  property held on everything explored (KNOWN-FINDING lines allowed)
  1  at least one `VIOLATION property=<ID> replay=<path>` line was printed
  2  tool failure / timeout / build failure (never a verdict)
"""
import json
import os
import re
import shutil
import subprocess
import sys
import time

VERIF = os.path.dirname(os.path.dirname(os.path.abspath(__file__)))
REPO = os.environ.get("VERIF_REPO", "/repo")  # scratch copies for mutation self-tests only
SPEC = os.path.join(VERIF, "spec")
HARNESS = os.path.join(VERIF, "harness")
WORK = os.path.join(VERIF, "work")
EVID = os.path.join(VERIF, "evidence")
REPLAYS = os.path.join(VERIF, "replays")
FINDINGS = os.path.join(VERIF, "known_findings.json")


class ToolError(Exception):
    """Infrastructure failure: reported as exit 2, never as a violation."""


def log(*a):
    print(*a, file=sys.stderr, flush=True)


def sh(cmd, timeout=None, env=None, cwd=None, check=True, stdin=None):
    e = dict(os.environ)
    if env:
        e.update(env)
    t0 = time.time()
    try:
        p = subprocess.run(cmd, stdout=subprocess.PIPE, stderr=subprocess.PIPE, env=e, cwd=cwd,
                           timeout=timeout, input=stdin)
    except subprocess.TimeoutExpired:
        raise ToolError("timeout after %ss: %s" % (timeout, " ".join(cmd)[:300]))
    if check and p.returncode != 0:
        raise ToolError("command failed (%d): %s\n%s\n%s" % (
            p.returncode, " ".join(cmd)[:300], p.stdout.decode(errors="replace")[-3000:],
            p.stderr.decode(errors="replace")[-3000:]))
    return p.returncode, p.stdout.decode(errors="replace"), p.stderr.decode(errors="replace"), time.time() - t0


# ---------------------------------------------------------------------------------------------
# building
# ---------------------------------------------------------------------------------------------
_built = set()


def build_harness(profile="release"):
    """cargo build of the harness: recompiles /repo/ragc-common and /repo/ragc-core from the
    current working tree with --cfg ragc_verif (harness/.cargo/config.toml)."""
    if profile in _built:
        return rvh_path(profile)
    cmd = ["cargo", "build", "--offline", "--quiet"]
    cmd += ["--release"] if profile == "release" else ["--profile", profile]
    t0 = time.time()
    rc, out, err, _ = sh(cmd, cwd=HARNESS, timeout=1500, check=False,
                         env={"CARGO_NET_OFFLINE": "true"})
    if rc != 0:
        raise ToolError("harness build failed (profile %s):\n%s" % (profile, err[-4000:]))
    log("[build] harness %s ok in %.1fs" % (profile, time.time() - t0))
    _built.add(profile)
    return rvh_path(profile)


def rvh_path(profile="release"):
    return os.path.join(HARNESS, "target", profile, "rvh")


def build_cli(profile="release"):
    """Build the real ragc CLI from the working tree into the harness target dir (never
    /repo/target), with the hook cfg enabled so it is the same code the harness links."""
    key = "cli-" + profile
    tdir = os.path.join(HARNESS, "target", "repo")
    binp = os.path.join(tdir, "release" if profile == "release" else profile, "ragc")
    if key in _built:
        return binp
    cmd = ["cargo", "build", "--offline", "--quiet", "--manifest-path", os.path.join(REPO, "Cargo.toml"),
           "-p", "ragc-cli", "--target-dir", tdir]
    cmd += ["--release"] if profile == "release" else []
    env = {"CARGO_NET_OFFLINE": "true",
           "RUSTFLAGS": "--cfg ragc_verif --check-cfg cfg(ragc_verif)"}
    # do not let cargo rewrite /repo/Cargo.lock
    lock = os.path.join(REPO, "Cargo.lock")
    before = open(lock, "rb").read() if os.path.exists(lock) else None
    rc, out, err, _ = sh(cmd, timeout=1500, check=False, env=env)
    if before is not None and open(lock, "rb").read() != before:
        open(lock, "wb").write(before)
    if rc != 0:
        raise ToolError("ragc-cli build failed:\n%s" % err[-4000:])
    _built.add(key)
    return binp


def build_cli_checked():
    """The real ragc CLI built with integer-overflow checks and debug assertions ON (what `cargo build` /
    `cargo test` use), otherwise with the optimised profile's settings so that runs stay fast. Separate
    target dir (harness/target/repo-chk): the release CLI of build_cli() is left untouched. (C18)"""
    key = "cli-chk"
    tdir = os.path.join(HARNESS, "target", "repo-chk")
    binp = os.path.join(tdir, "release", "ragc")
    if key in _built:
        return binp
    cmd = ["cargo", "build", "--offline", "--quiet", "--manifest-path", os.path.join(REPO, "Cargo.toml"),
           "-p", "ragc-cli", "--target-dir", tdir, "--release"]
    env = {"CARGO_NET_OFFLINE": "true",
           "RUSTFLAGS": "--cfg ragc_verif --check-cfg cfg(ragc_verif)",
           "CARGO_PROFILE_RELEASE_OVERFLOW_CHECKS": "true",
           "CARGO_PROFILE_RELEASE_DEBUG_ASSERTIONS": "true"}
    lock = os.path.join(REPO, "Cargo.lock")
    before = open(lock, "rb").read() if os.path.exists(lock) else None
    rc, out, err, _ = sh(cmd, timeout=2400, check=False, env=env)
    if before is not None and open(lock, "rb").read() != before:
        open(lock, "wb").write(before)
    if rc != 0:
        raise ToolError("ragc-cli (overflow-checked) build failed:\n%s" % err[-4000:])
    _built.add(key)
    return binp


def rvh(args, profile="release", timeout=1200, env=None, check=True, stdin=None):
    binp = build_harness(profile)
    return sh([binp] + args, timeout=timeout, env=env, check=check, stdin=stdin)


# ---------------------------------------------------------------------------------------------
# TLC
# ---------------------------------------------------------------------------------------------
class TlcResult:
    def __init__(self):
        self.generated = 0
        self.distinct = 0
        self.depth = 0
        self.ok = False
        self.violated = None       # name of violated invariant / property
        self.error = None          # other error text
        self.printed = []          # parsed PrintT tuples  (tag, payload)
        self.coverage = {}         # action name -> (distinct, total)
        self.raw = ""
        self.wall = 0.0
        self.cex = []              # counterexample state texts


_re_states = re.compile(r"(\d+) states generated, (\d+) distinct states found")
_re_depth = re.compile(r"The depth of the complete state graph search is (\d+)")
_re_inv = re.compile(r"Error: Invariant (\S+) is violated")
_re_prop = re.compile(r"Error: (Temporal properties were violated|Action property (\S+) is violated|Deadlock reached)")
_re_cov = re.compile(r"^<(\w+) line (\d+), col \d+ to line \d+, col \d+ of module (\w+)>: (\d+):(\d+)")
_re_print = re.compile(r'^<<"([A-Z_]+)", (.*)>>$')


def _join_wrapped_prints(lines):
    """TLC's pretty printer breaks a wide PrintT tuple over several lines (`<< "TAG",` / `   "x",` / `   "y" >>`);
    such a block is joined back into the one-line form `<<"TAG", "x", "y">>` that _re_print understands."""
    out, buf = [], None
    for line in lines:
        if buf is not None:
            buf.append(line.strip())
            if line.rstrip().endswith(">>"):
                j = " ".join(buf)
                j = re.sub(r"^<<\s+", "<<", j)
                j = re.sub(r"\s+>>$", ">>", j)
                out.append(j)
                buf = None
            continue
        if re.match(r'^<< "[A-Z_]+",', line) and not line.rstrip().endswith(">>"):
            buf = [line.strip()]
            continue
        if re.match(r'^<< "[A-Z_]+",.*>>\s*$', line):
            line = re.sub(r"\s+>>\s*$", ">>", re.sub(r"^<<\s+", "<<", line))
        out.append(line)
    if buf:
        out.extend(buf)
    return out


def tla_unescape(s):
    """Unescape a TLA+ string literal body as TLC prints it."""
    out = []
    i = 0
    while i < len(s):
        c = s[i]
        if c == "\\" and i + 1 < len(s):
            n = s[i + 1]
            out.append({"n": "\n", "t": "\t", "r": "\r", "f": "\f"}.get(n, n))
            i += 2
        else:
            out.append(c)
            i += 1
    return "".join(out)


def parse_tla_value(txt):
    """Parse a small subset of TLC value syntax printed by PrintT: ints, strings, TRUE/FALSE,
    tuples <<...>>, sets {...}. Records are printed via ToJson by our specs, so not needed."""
    pos = [0]

    def ws():
        while pos[0] < len(txt) and txt[pos[0]] in " \n\t":
            pos[0] += 1

    def val():
        ws()
        c = txt[pos[0]]
        if txt.startswith("<<", pos[0]):
            pos[0] += 2
            items = []
            ws()
            if txt.startswith(">>", pos[0]):
                pos[0] += 2
                return items
            while True:
                items.append(val())
                ws()
                if txt.startswith(">>", pos[0]):
                    pos[0] += 2
                    return items
                assert txt[pos[0]] == ",", txt[pos[0]:pos[0] + 20]
                pos[0] += 1
        if c == "{":
            pos[0] += 1
            items = []
            ws()
            if txt[pos[0]] == "}":
                pos[0] += 1
                return items
            while True:
                items.append(val())
                ws()
                if txt[pos[0]] == "}":
                    pos[0] += 1
                    return items
                assert txt[pos[0]] == ","
                pos[0] += 1
        if c == '"':
            j = pos[0] + 1
            buf = []
            while txt[j] != '"':
                if txt[j] == "\\":
                    buf.append(txt[j:j + 2])
                    j += 2
                else:
                    buf.append(txt[j])
                    j += 1
            pos[0] = j + 1
            return tla_unescape("".join(buf))
        m = re.compile(r"-?\d+").match(txt, pos[0])
        if m:
            pos[0] = m.end()
            return int(m.group(0))
        m = re.compile(r"[A-Za-z_][A-Za-z_0-9]*").match(txt, pos[0])
        if m:
            pos[0] = m.end()
            w = m.group(0)
            return True if w == "TRUE" else False if w == "FALSE" else w
        raise ValueError("cannot parse TLA value at: " + txt[pos[0]:pos[0] + 40])

    return val()


def run_tlc(module, cfg=None, workdir=None, workers=8, env=None, timeout=1800, simulate=None,
            depth=None, coverage=True, deque=False, xmx="6g", extra=None, seed=None, dfid=None):
    """Run TLC on spec/<module>.tla with spec/<cfg> (default <module>.cfg)."""
    os.makedirs(workdir, exist_ok=True)
    import tempfile
    md = tempfile.mkdtemp(prefix="md_%s_" % os.path.basename(cfg or module).replace(".", "_"), dir=workdir)
    cfgp = os.path.join(SPEC, cfg or module + ".cfg")
    jopts = "-Xss1g"
    if deque:
        jopts += " -Dtlc2.tool.queue.IStateQueue=StateDeque"
    cmd = ["java", "-XX:+UseParallelGC", "-Xmx" + xmx, "-cp",
           "/opt/veriftools/tla/tla2tools.jar:/opt/veriftools/tla/CommunityModules-deps.jar",
           "tlc2.TLC", "-workers", str(workers), "-metadir", md, "-cleanup", "-noGenerateSpecTE",
           "-config", cfgp]
    if coverage and not simulate:
        cmd += ["-coverage", "1"]
    if simulate:
        cmd += ["-simulate", "num=%d" % simulate]
        if depth:
            cmd += ["-depth", str(depth)]
    if seed is not None:
        cmd += ["-seed", str(seed)]
    if dfid:
        cmd += ["-dfid", str(dfid)]
    if extra:
        cmd += extra
    cmd += [os.path.join(SPEC, module + ".tla")]
    e = {"JAVA_TOOL_OPTIONS": jopts}
    if env:
        e.update(env)
    rc, out, err, wall = sh(cmd, timeout=timeout, env=e, cwd=SPEC, check=False)
    shutil.rmtree(md, ignore_errors=True)
    r = TlcResult()
    r.raw = out
    r.wall = wall
    cur_state = None
    for line in _join_wrapped_prints(out.splitlines()):
        m = _re_states.search(line)
        if m:
            r.generated, r.distinct = int(m.group(1)), int(m.group(2))
        m = _re_depth.search(line)
        if m:
            r.depth = int(m.group(1))
        m = _re_inv.search(line)
        if m:
            r.violated = m.group(1)
        m = _re_prop.search(line)
        if m and not r.violated:
            r.violated = m.group(2) or m.group(1)
        m = _re_cov.match(line)
        if m:
            name = m.group(1)
            d, t = int(m.group(4)), int(m.group(5))
            od, ot = r.coverage.get(name, (0, 0))
            r.coverage[name] = (max(od, d), max(ot, t))
        m = _re_print.match(line)
        if m:
            try:
                r.printed.append((m.group(1), parse_tla_value("<<" + m.group(2) + ">>")))
            except Exception as ex:  # keep raw
                r.printed.append((m.group(1), [line]))
        if line.startswith("State ") and ":" in line:
            cur_state = [line]
            r.cex.append(cur_state)
        elif cur_state is not None and (line.startswith("/\\") or line.startswith("  ") or "|->" in line):
            cur_state.append(line)
        elif line.strip() == "":
            cur_state = None
    if "Model checking completed. No error has been found." in out or (
            simulate and "Error:" not in out and rc == 0):
        r.ok = True
    if not r.ok and not r.violated:
        # evaluation errors, parse errors, assumption failures, postcondition false
        m = re.search(r"Error: (.*(?:\n.*){0,12})", out)
        r.error = m.group(1) if m else ("tlc rc=%d\n%s\n%s" % (rc, out[-2000:], err[-2000:]))
    return r


def tlc_must_pass(r, what):
    """For MC runs on the design spec: anything but success is a tool/spec error (exit 2) --
    a design-level counterexample on the unchanged spec is not a verdict on the code."""
    if not r.ok:
        raise ToolError("TLC run '%s' did not succeed: violated=%s error=%s\n%s" % (
            what, r.violated, r.error, r.raw[-3000:]))


# ---------------------------------------------------------------------------------------------
# known findings
# ---------------------------------------------------------------------------------------------
def load_findings():
    if not os.path.exists(FINDINGS):
        return []
    return json.load(open(FINDINGS)).get("findings", [])


def match_finding(pid, case):
    """A finding matches a violating case iff every key of its `pattern` equals the same key
    in the case's `sig` dict (a small, check-specific signature of the failure)."""
    sig = case.get("sig", {})
    for f in load_findings():
        if f.get("property") != pid or f.get("status") != "open":
            continue
        pat = f.get("pattern", {})
        if pat and all(sig.get(k) == v for k, v in pat.items()):
            return f
    return None


# ---------------------------------------------------------------------------------------------
# per-run context: timing, violations, evidence
# ---------------------------------------------------------------------------------------------
class Ctx:
    def __init__(self, pid, tier, seed, level="model_checking"):
        self.pid = pid
        self.tier = tier
        self.seed = seed
        self.level = level
        self.t0 = time.time()
        self.work = os.path.join(WORK, pid)
        self.evid_dir = EVID   # extension checks (not tied to a listed property) write elsewhere
        shutil.rmtree(self.work, ignore_errors=True)
        os.makedirs(self.work, exist_ok=True)
        self.states = 0
        self.transitions = 0
        self.traces = 0
        self.evaluations = 0
        self.nontrivial = 0
        self.rule = ""
        self.samples = []
        self.violations = []
        self.known = {}
        self.coverage_actions = {}
        self.assumptions = []
        self.trusted = ["TLC 1.8.0 + CommunityModules", "harness projections (u64<->symbols, bytes<->ints)"]
        self.checker_cmds = []
        self.extra = {}
        self.exhaustive = False
        self.mc_runs = []

    # -- TLC bookkeeping
    def add_mc(self, name, r, required_actions=()):
        self.states += r.distinct
        self.transitions += r.generated
        self.mc_runs.append({"run": name, "distinct": r.distinct, "generated": r.generated,
                             "depth": r.depth, "wall_s": round(r.wall, 1)})
        for a, (d, t) in r.coverage.items():
            self.coverage_actions[name + "." + a] = t
        for a in required_actions:
            if r.coverage.get(a, (0, 0))[1] == 0:
                raise ToolError("vacuity guard: action %s never taken in MC run %s" % (a, name))

    def sample(self, s, cap=6):
        if len(self.samples) < cap:
            self.samples.append(s)

    # -- verdicts
    def violation(self, case_name, case):
        """Record a violating case (dict with at least `sig` and whatever is needed to replay)."""
        f = match_finding(self.pid, case)
        if f is not None:
            key = f.get("id", f.get("what"))
            self.known.setdefault(key, {"finding": f, "n": 0})["n"] += 1
            return False
        d = os.path.join(REPLAYS, self.pid)
        os.makedirs(d, exist_ok=True)
        safe = re.sub(r"[^A-Za-z0-9_.-]", "_", case_name)[:80]
        path = os.path.join(d, "%s.json" % safe)
        case = dict(case)
        case.setdefault("property", self.pid)
        case.setdefault("seed", self.seed)
        case.setdefault("tier", self.tier)
        with open(path, "w") as fh:
            json.dump(case, fh, indent=1, default=str)
        self.violations.append(path)
        print("VIOLATION property=%s replay=%s" % (self.pid, path), flush=True)
        return True

    def finish(self):
        for key, k in self.known.items():
            f = k["finding"]
            print("KNOWN-FINDING: property=%s %s (%d case(s) this run)" % (self.pid, f.get("what"), k["n"]),
                  flush=True)
        cov = {
            "states": int(self.states),
            "transitions": int(self.transitions),
            "traces_validated_against_impl": int(self.traces),
            "evaluations": int(self.evaluations),
            "distinct_nontrivial": int(self.nontrivial),
            "rule": self.rule,
            "samples": self.samples if self.samples else ["(none)"],
            "exhaustive": bool(self.exhaustive),
            "checker_cmd": "; ".join(self.checker_cmds)[:2000],
            "trusted_base": self.trusted,
            "mc_runs": self.mc_runs,
            "action_coverage": self.coverage_actions,
            "known_findings_hit": {k: v["n"] for k, v in self.known.items()},
        }
        cov.update(self.extra)
        ev = {
            "property_id": self.pid,
            "tier": self.tier,
            "seed": int(self.seed),
            "level": self.level,
            "coverage": cov,
            "assumptions": self.assumptions,
            "wall_s": round(time.time() - self.t0, 2),
            "violations": len(self.violations),
        }
        os.makedirs(self.evid_dir, exist_ok=True)
        with open(os.path.join(self.evid_dir, self.pid + ".json"), "w") as fh:
            json.dump(ev, fh, indent=1, default=str)
        shutil.rmtree(self.work, ignore_errors=True)
        return 1 if self.violations else 0


def read_ndjson(path):
    out = []
    with open(path) as fh:
        for line in fh:
            line = line.strip()
            if line:
                out.append(json.loads(line))
    return out


def write_ndjson(path, recs):
    with open(path, "w") as fh:
        for r in recs:
            fh.write(json.dumps(r, separators=(",", ":")) + "\n")


# ---------------------------------------------------------------------------------------------
# trace validation: concatenated cases, acceptance by POSTCONDITION on the diameter
# ---------------------------------------------------------------------------------------------
def gen_cfg(path, spec="TSpec", constants=None, invariants=(), post="Accepted", properties=()):
    with open(path, "w") as fh:
        fh.write("SPECIFICATION %s\n" % spec)
        if constants:
            fh.write("CONSTANTS\n")
            for k, v in constants.items():
                fh.write("  %s = %s\n" % (k, v))
        if invariants:
            fh.write("INVARIANTS %s\n" % " ".join(invariants))
        if properties:
            fh.write("PROPERTIES %s\n" % " ".join(properties))
        if post:
            fh.write("POSTCONDITION %s\n" % post)
        fh.write("CHECK_DEADLOCK FALSE\n")
    return path


def validate_trace(module, cfg, cases, workdir, tag="t", max_reject=8, timeout=900, xmx="3g", env=None):
    """cases: list of (case_id, [event dicts]).  All cases are concatenated into one ndjson
    file and validated by one TLC run of the trace spec.  On a rejection the failing case is cut
    out (and returned) and the remaining cases are validated again, so the rest is examined.
    Returns (accepted_case_count, rejected list of dict(case_id, events, index, event, detail),
             states, generated)."""
    os.makedirs(workdir, exist_ok=True)
    remaining = list(cases)
    rejected = []
    states = gen = 0
    while remaining:
        path = os.path.join(workdir, "%s_%d.ndjson" % (tag, len(rejected)))
        bounds = []
        with open(path, "w") as fh:
            n = 0
            for cid, evs in remaining:
                bounds.append((n + 1, n + len(evs), cid))
                for e in evs:
                    fh.write(json.dumps(e, separators=(",", ":")) + "\n")
                n += len(evs)
        e = {"TRACE": path}
        if env:
            e.update(env)
        r = run_tlc(module, cfg, workdir=workdir, workers=1, env=e, deque=True, coverage=False,
                    timeout=timeout, xmx=xmx)
        states += r.distinct
        gen += r.generated
        if r.ok:
            break
        um = [p for (t, p) in r.printed if t == "UNMATCHED"]
        if r.violated:   # an invariant violation takes precedence over the (then also failing) postcondition
            # an invariant of the design spec failed on a state of the trace: locate via l
            idx = None
            for st in r.cex[::-1]:
                for ln in st:
                    m = re.search(r"\bl = (\d+)", ln)
                    if m:
                        idx = int(m.group(1)) - 1
                        break
                if idx is not None:
                    break
            if idx is None:
                raise ToolError("trace spec %s: invariant %s violated but position not found\n%s" % (
                    module, r.violated, r.raw[-2000:]))
            detail = "invariant %s violated" % r.violated
        elif um:
            idx = um[0][0]
            detail = "no specification step matches this event"
        else:
            raise ToolError("trace validation %s failed without verdict: %s\n%s" % (module, r.error, r.raw[-3000:]))
        hit = None
        for (a, b, cid) in bounds:
            if a <= idx <= b:
                hit = (a, b, cid)
        if hit is None:
            raise ToolError("unmatched index %s outside of all cases" % idx)
        a, b, cid = hit
        evs = [ev for (c, ev) in remaining if c == cid][0]
        rejected.append({"case_id": cid, "index_in_case": idx - a, "event": evs[idx - a],
                         "prev_event": evs[idx - a - 1] if idx - a > 0 else None,
                         "detail": detail, "events": evs if len(evs) <= 400 else evs[:1] + evs[max(1, idx - a - 20):idx - a + 3]})
        remaining = [(c, ev) for (c, ev) in remaining if c != cid]
        if len(rejected) >= max_reject:
            break
    accepted = len(cases) - len(rejected) - (len(remaining) if rejected and len(rejected) >= max_reject else 0)
    return accepted, rejected, states, gen


# ---------------------------------------------------------------------------------------------
# long-lived harness processes that call create many times (C19)
# ---------------------------------------------------------------------------------------------
# In this sandbox touching fresh pages is very slow (~60 MB/s) and every create allocates fresh ~100 MB zstd
# contexts (about ten per archive): a 30-byte input costs 10-30 s per process.  With these glibc settings a harness
# process keeps freed memory on its heap (no mmap/munmap per allocation, no trimming), so the pages are touched once
# per process and later in-process creates run in milliseconds.  Only the allocator of the harness process is
# affected, not what the code under test computes.
REUSE_HEAP_ENV = {"MALLOC_ARENA_MAX": "1", "MALLOC_MMAP_MAX_": "0", "MALLOC_TRIM_THRESHOLD_": "1099511627776"}
