#!/usr/bin/env python3
"""Regenerates seeded/README.md from seeded/*/meta.json (which independent breaking change is caught by which check)."""
import json
import os

HERE = os.path.dirname(os.path.dirname(os.path.abspath(__file__)))
rows = []
for d in sorted(os.listdir(os.path.join(HERE, "seeded"))):
    mp = os.path.join(HERE, "seeded", d, "meta.json")
    if os.path.exists(mp):
        m = json.load(open(mp))
        rows.append((m["id"], m["property"], m["needs_to_manifest"], ", ".join(m.get("caught_by") or []) or "**missed**", m.get("note", "")))
with open(os.path.join(HERE, "seeded", "README.md"), "w") as fh:
    fh.write("# Seeded breaking changes\n\nEach directory holds one change to ekg/ragc written by an independent sub-agent that saw only the text of one property and its own "
             "scratch worktree of /repo (nothing from /verif): `patch.diff` (applies to the base commit named in meta.json), the demonstration that fails with the change and passes without it, "
             "`README.md` of the author, and `meta.json` (property, what it needs to manifest, what was confirmed, which checks were run and which caught it). "
             "All compile and keep the existing test suite green.\n\n| id | property | needs, to manifest | caught by | note |\n|---|---|---|---|---|\n")
    for r in rows:
        fh.write("| %s | %s | %s | %s | %s |\n" % r)
print(len(rows), "seeded changes")
