#!/usr/bin/env python3
"""Regenerates MANIFEST.json from the table below (single source of truth for check registration)."""
import json
import os

HERE = os.path.dirname(os.path.dirname(os.path.abspath(__file__)))

CHECKS = {
    "C20": dict(cat="model_checking", design="5/C20",
                text="Kmer.tla is model-checked exhaustively (k<=4 quick, k<=5 thorough; all sequences over {A,C,G,T,N} of length k+3): "
                     "registers are a function of the history alone, canonical/direction/restart laws hold. Every maximal behaviour of the "
                     "model is replayed on the real Kmer objects with the projected state compared after each step, and recorded executions "
                     "for every k in 1..32 (random long sequences; all 4^k windows for small k) are validated by TLC against Trace_Kmer.",
                note="Trusted: TLC, the harness projection u64 -> symbol sequence (+ low-bits-zero flag). Exhaustive only within the stated bounds; k>5 by sampled traces.",
                technique="TLA+ spec (Kmer.tla) + TLC exhaustive MC; TLC-generated behaviours replayed on the real code; recorded traces validated by TLC (Trace_Kmer.tla)"),
}

NOT_APPLICABLE = []


def main():
    hooks_commits = []
    p = os.path.join(HERE, "lib", "hook_commits.txt")
    if os.path.exists(p):
        hooks_commits = [l.strip() for l in open(p) if l.strip()]
    m = {
        "version": 1,
        "setup_cmd": "cd /verif/harness && CARGO_NET_OFFLINE=true cargo build --release --offline",
        "hooks": {
            "guard": "ragc_verif",
            "enable": "rustc cfg flag: RUSTFLAGS='--cfg ragc_verif --check-cfg cfg(ragc_verif)' (set in /verif/harness/.cargo/config.toml; "
                      "the harness has path dependencies on /repo/ragc-common and /repo/ragc-core and rebuilds them from the working tree)",
            "baseline_off_cmd": "cd /repo && cargo test --workspace --no-fail-fast --offline",
            "source_commits": hooks_commits,
            "add_only": True,
        },
        "engines": [
            {"name": "tlc", "path": "/verif/spec", "serves_properties": sorted(CHECKS),
             "kind_free_text": "explicit TLA+ specification checked with TLC (exhaustive MC, simulation, trace validation)"},
            {"name": "rvh", "path": "/verif/harness", "serves_properties": sorted(CHECKS),
             "kind_free_text": "Rust conformance harness: replays TLC-generated behaviours on the real crates and records NDJSON traces of real executions"},
        ],
        "checks": [],
        "not_applicable": NOT_APPLICABLE,
        "notes": "All checks: ./check <ID> --tier quick|thorough (cwd /verif). Exit 0 held / 1 VIOLATION / 2 tool error. See DESIGN.md.",
    }
    for pid in sorted(CHECKS):
        c = CHECKS[pid]
        m["checks"].append({
            "property_id": pid,
            "quick_cmd": "./check %s --tier quick" % pid,
            "thorough_cmd": "./check %s --tier thorough" % pid,
            "evidence_file": "/verif/evidence/%s.json" % pid,
            "replay_cmd_template": "./check %s --replay {path}" % pid,
            "engine": "tlc",
            "level_claimed": {"category": c["cat"], "text": c["text"], "design_ref": "DESIGN.md section " + c["design"]},
            "level_note": c["note"],
            "technique": c["technique"],
        })
    with open(os.path.join(HERE, "MANIFEST.json"), "w") as fh:
        json.dump(m, fh, indent=1)
    print("MANIFEST.json: %d checks" % len(m["checks"]))


if __name__ == "__main__":
    main()
