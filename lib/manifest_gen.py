#!/usr/bin/env python3
"""Regenerates MANIFEST.json from the table below (single source of truth for check registration)."""
import json
import os

HERE = os.path.dirname(os.path.dirname(os.path.abspath(__file__)))

def load_checks():
    """Every checks/cNN.py carries its own MANIFEST dict (cat, design, text, note, technique)."""
    import importlib
    import sys
    sys.path.insert(0, HERE)
    out = {}
    for f in sorted(os.listdir(os.path.join(HERE, "checks"))):
        if f.startswith("c") and f.endswith(".py") and f[1:-3].isdigit():
            mod = importlib.import_module("checks." + f[:-3])
            if hasattr(mod, "MANIFEST"):
                out[f[:-3].upper()] = mod.MANIFEST
    return out


CHECKS = load_checks()

# properties deliberately not claimed: id -> reason (kept current by hand)
NOT_CLAIMED = {}



def not_applicable():
    out = []
    for line in open(os.path.join(HERE, "properties.jsonl")):
        pid = json.loads(line)["id"]
        if pid in CHECKS:
            continue
        out.append({"property_id": pid, "reason": NOT_CLAIMED.get(
            pid, "no check registered yet: the specification module and its binding for this property are still under construction (see DESIGN.md section 12)")})
    return out


def main():
    hooks_commits = []
    p = os.path.join(HERE, "lib", "hook_commits.txt")
    if os.path.exists(p):
        hooks_commits = [l.strip() for l in open(p) if l.strip()]
    m = {
        "version": 1,
        "setup_cmd": "cd /verif && python3 lib/setup.py",
        "hooks": {
            "guard": "ragc_verif",
            "enable": "rustc cfg flag: RUSTFLAGS='--cfg ragc_verif --check-cfg cfg(ragc_verif)' (set in /verif/harness/.cargo/config.toml; "
                      "the harness has path dependencies on /repo/ragc-common and /repo/ragc-core and rebuilds them from the working tree)",
            "baseline_off_cmd": "cd /repo && cargo test --workspace --no-fail-fast --offline",
            "source_commits": hooks_commits,
            "add_only": True,
        },
        "engines": [
            {"name": "tlc", "path": "/verif/spec", "serves_properties": sorted(CHECKS),
             "kind_free_text": "explicit TLA+ specification checked with TLC (exhaustive MC, simulation, trace validation)"},
            {"name": "rvh", "path": "/verif/harness", "serves_properties": sorted(CHECKS),
             "kind_free_text": "Rust conformance harness: replays TLC-generated behaviours on the real crates and records NDJSON traces of real executions"},
        ],
        "checks": [],
        "not_applicable": not_applicable(),
        "notes": "All checks: ./check <ID> --tier quick|thorough (cwd /verif). Exit 0 held / 1 VIOLATION / 2 tool error. See DESIGN.md (section 14 = as built). "
                 "Beyond the listed properties: ./check EXT (specification modules for priority_queue.rs, segment_buffer.rs, bloom_filter.rs, stream_naming.rs, "
                 "preprocessing.rs; evidence in evidence_ext/) and ./check selftest (trace corruption / coverage self-tests). seeded/ holds independent breaking "
                 "changes with the checks that catch them (seeded/README.md).",
    }
    for pid in sorted(CHECKS):
        c = CHECKS[pid]
        m["checks"].append({
            "property_id": pid,
            "quick_cmd": "./check %s --tier quick" % pid,
            "thorough_cmd": "./check %s --tier thorough" % pid,
            "evidence_file": "/verif/evidence/%s.json" % pid,
            "replay_cmd_template": "./check %s --replay {path}" % pid,
            "engine": "tlc",
            "level_claimed": {"category": c["cat"], "text": c["text"], "design_ref": "DESIGN.md section " + c["design"]},
            "level_note": c["note"],
            "technique": c["technique"],
        })
    with open(os.path.join(HERE, "MANIFEST.json"), "w") as fh:
        json.dump(m, fh, indent=1)
    print("MANIFEST.json: %d checks" % len(m["checks"]))


if __name__ == "__main__":
    main()
